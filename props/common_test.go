package props

import "verif/internal/ast"

var astStyle = ast.Style{}
var astStyleOneLine = ast.Style{OneLine: true}
