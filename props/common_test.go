package props

import (
	"encoding/json"
	"sort"

	"verif/internal/ast"
	"verif/internal/refsem"
	"verif/internal/wire"
)

var astStyle = ast.Style{}
var astStyleOneLine = ast.Style{OneLine: true}

// wireOf converts a resolved reference type into the worker's dump format.
func wireOf(t *ast.Ty) *wire.Ty {
	if t == nil {
		return nil
	}
	switch t.K {
	case ast.KName:
		return &wire.Ty{K: "name", M: t.M.String(), Name: t.Name}
	case ast.KOne:
		return &wire.Ty{K: "one", M: t.M.String()}
	case ast.KTensor:
		return &wire.Ty{K: "send", M: t.M.String(), L: wireOf(t.L), R: wireOf(t.R)}
	case ast.KLolli:
		return &wire.Ty{K: "recv", M: t.M.String(), L: wireOf(t.L), R: wireOf(t.R)}
	case ast.KPlus, ast.KWith:
		r := &wire.Ty{K: "plus", M: t.M.String()}
		if t.K == ast.KWith {
			r.K = "with"
		}
		for _, b := range t.Brs {
			r.Brs = append(r.Brs, wire.Br{L: b.L, T: wireOf(b.T)})
		}
		return r
	case ast.KUp, ast.KDown:
		k := "up"
		if t.K == ast.KDown {
			k = "down"
		}
		return &wire.Ty{K: k, M: t.M.String(), From: t.L.M.String(), To: t.M.String(), C: wireOf(t.L)}
	}
	return nil
}

func tyJSON(t *wire.Ty) string {
	b, _ := json.Marshal(t)
	return string(b)
}

// unsetNodes lists nodes of a dumped type whose mode is not one of the four modes.
func badModes(t *wire.Ty, out *[]string) {
	if t == nil {
		return
	}
	ok := func(m string) bool { return m == "rep" || m == "mul" || m == "aff" || m == "lin" }
	if !ok(t.M) {
		*out = append(*out, t.K+":"+t.M)
	}
	if (t.K == "up" || t.K == "down") && (!ok(t.From) || !ok(t.To)) {
		*out = append(*out, t.K+":"+t.From+"->"+t.To)
	}
	badModes(t.L, out)
	badModes(t.R, out)
	badModes(t.C, out)
	for _, b := range t.Brs {
		badModes(b.T, out)
	}
}

func sortStrings(xs []string) { sort.Strings(xs) }

type refsemResult struct{ events []refsem.Event }

func (r *refsemResult) linearization(observed []string) (bool, bool, string) {
	rr := &refsem.Result{Events: r.events}
	return rr.Linearization(observed)
}
