package props

import (
	"fmt"
	"os"
	"sort"
	"strings"
	"testing"

	"pgregory.net/rapid"

	"verif/internal/ast"
	"verif/internal/gen"
	"verif/internal/harness"
	"verif/internal/refcheck"
	"verif/internal/refsem"
)

// C14 — lexical scoping: verdict and outcome are invariant under consistent renaming of bound
// channel names, function, type and label names, and under permutation of declarations.

type variantC14 struct {
	What     string
	Text     string
	PrintMap map[string]string // rendered print label -> original label
	Steps    int
	Cross    int
}

type caseC14 struct {
	Base     string
	Origin   string
	Accept   bool
	Labels   []string // reference multiset (original labels)
	Variants []variantC14
	Seed     uint64
	Contraction bool
}

func printLabels(p *ast.Program) map[string]bool {
	m := map[string]bool{}
	for _, d := range p.Decls {
		if d.Body != nil {
			d.Body.Walk(func(t *ast.Term) {
				if t.Kind == ast.TPrint {
					m[t.Label] = true
				}
			})
		}
	}
	return m
}

// render applies candidate steps greedily, keeping those the references consider admissible:
// the verdict class is unchanged and (for accepted programs) the reference semantics prints the
// same labels modulo the print-label renaming.
func render(d gen.D, base *ast.Program, accept bool, labels []string, mode string, tries int) (*ast.Program, variantC14) {
	cur := base.Clone()
	v := variantC14{What: mode, PrintMap: map[string]string{}}
	want := strings.Join(labels, " ")
	for _, st := range d.Candidates(cur, mode, tries) {
		if st.Kind == "print" {
			if printLabels(cur)[st.To] {
				continue // keep the label renaming injective
			}
		}
		next := cur.Clone()
		st.Apply(next)
		vd, _ := refcheck.Program(next, true)
		if vd.Unknown || vd.Accept != accept {
			continue
		}
		pm := v.PrintMap
		if st.Kind == "print" {
			pm = map[string]string{}
			for k, x := range v.PrintMap {
				pm[k] = x
			}
			orig := st.From
			if o, ok := v.PrintMap[st.From]; ok {
				orig = o
				delete(pm, st.From)
			}
			pm[st.To] = orig
		}
		if accept {
			r := refsem.Run(next, 50000)
			if r.Error != "" || r.OutOfBudget || r.Stuck > 0 {
				continue
			}
			var got []string
			for _, l := range r.Labels {
				if o, ok := pm[l]; ok {
					l = o
				}
				got = append(got, l)
			}
			sort.Strings(got)
			if strings.Join(got, " ") != want {
				continue // the renaming captured something: not admissible
			}
		}
		cur = next
		v.PrintMap = pm
		v.Steps++
		if st.Cross {
			v.Cross++
		}
	}
	v.Text = cur.Text(nil)
	return cur, v
}

func genC14(rt *rapid.T, h *harness.H) interface{} {
	d := gen.D{T: rt}
	p, g := genProgramOpt(rt, h, true)
	if p == nil {
		return nil
	}
	_ = g
	c := &caseC14{Accept: true, Origin: "g-prog", Seed: rapid.Uint64Range(1, 1<<40).Draw(rt, "cfgseed")}
	if d.Chance(20, "illtyped") {
		kind := d.Of(gen.MutationKinds, "mutation")
		q, what, ok := d.Mutate(p, kind)
		if !ok {
			return nil
		}
		v, _ := refcheck.Program(q, true)
		if v.Unknown || v.Accept {
			return nil
		}
		p, c.Accept, c.Origin = q, false, "rejected mutant: "+what
	}
	c.Base = p.Text(nil)
	c.Contraction = hasContraction(p)
	if c.Accept {
		r := refsem.Run(p, 50000)
		if r.Error != "" || r.OutOfBudget || r.Stuck > 0 {
			h.S.Count("reference_semantics_problem")
			return nil
		}
		c.Labels = r.Labels
	}
	tries := 30
	r1, v1 := render(d, p, c.Accept, c.Labels, "reuse", tries)
	v1.What = "maximal admissible re-use of names"
	_, v2 := render(d, p, c.Accept, c.Labels, "random", 12)
	v2.What = "random fresh names"
	if n := aliasCoincidences(r1); n > 0 {
		h.S.Count("rendering_where_a_passed_provider_alias_meets_a_callee_binding")
		if os.Getenv("VERIF_DEBUG_ALIAS") != "" {
			h.S.Note("alias coincidence:\n" + r1.Text(nil))
		}
	}
	perm := d.Permute(r1)
	v3 := v1
	v3.What = "re-used names + declarations permuted"
	v3.Text = perm.Text(nil)
	c.Variants = []variantC14{v1, v2, v3}
	h.S.Sample(map[string]interface{}{"base": c.Base, "reuse_rendering": v1.Text, "kept_steps": v1.Steps, "coincidences": v1.Cross, "accept": c.Accept})
	return c
}

// aliasCoincidences counts calls that pass the caller's explicit provider name to a function
// which binds the same spelling (parameter or binder) under its own provider name.
func aliasCoincidences(p *ast.Program) int {
	n := 0
	for _, d := range p.Decls {
		if d.Body == nil || d.Explicit == "" {
			continue
		}
		d.Body.Walk(func(t *ast.Term) {
			if t.Kind != ast.TCall || len(t.Args) == 0 || t.Args[0].S != d.Explicit {
				return
			}
			f := p.Fun(t.Fn)
			if f == nil || f.Explicit == "" || f.Explicit == d.Explicit {
				return
			}
			for _, b := range gen.BoundNames(f) {
				if b == d.Explicit {
					n++
					return
				}
			}
		})
	}
	return n
}

func mapLabels(prints []string, pm map[string]string) string {
	var out []string
	for _, l := range prints {
		if o, ok := pm[l]; ok {
			l = o
		}
		out = append(out, l)
	}
	sort.Strings(out)
	return strings.Join(out, " ")
}

func checkC14(h *harness.H, ci interface{}) *harness.Failure {
	c := ci.(*caseC14)
	key := ""
	if len(c.Variants) > 0 && c.Variants[0].Cross >= 2 {
		key = c.Base
	}
	h.S.Eval(key)
	h.S.Add("renaming_steps_kept", c.Variants[0].Steps)
	h.S.Add("coincidences_introduced", c.Variants[0].Cross)
	if c.Accept {
		h.S.Count("base:accepted")
	} else {
		h.S.Count("base:rejected")
	}
	br, f := checkTotal(h, c.Base)
	if f != nil {
		return &harness.Failure{Inconclusive: true}
	}
	if !br.ParseOK {
		return harness.Failf("generated program does not parse: %s\n%s", br.ParseErr, c.Base)
	}
	if br.CheckOK != c.Accept {
		// the verdict itself is C07's business
		h.S.Count("skipped:base_verdict_disagrees_with_reference")
		return nil
	}
	modes := []int{0, 1}
	var baseOuts []runOut
	if c.Accept {
		baseOuts = runAll(h, c.Base, cfgMatrix(c.Seed, modes, 1), 2, 10000)
		for _, o := range baseOuts {
			if f := outcomeProblem(h, o); f != nil {
				return f
			}
			if o.Resp.Timeout {
				return &harness.Failure{Inconclusive: true, Msg: "timeout"}
			}
		}
	}
	for _, v := range c.Variants {
		r, f := checkTotal(h, v.Text)
		if f != nil {
			if f.Inconclusive {
				return f
			}
			return harness.Failf("the typechecker misbehaves on a renamed version of a program it handles (%s): %s", v.What, f.Msg)
		}
		if !r.ParseOK {
			return harness.Failf("a consistently renamed program no longer parses (%s): %s\nbase:\n%s\nrenamed:\n%s", v.What, r.ParseErr, c.Base, v.Text)
		}
		if r.CheckOK != c.Accept {
			return harness.Failf("the verdict changes under %s: base %s, renamed %s\nbase:\n%s\nrenamed:\n%s", v.What, verdictStr(br), verdictStr(r), c.Base, v.Text)
		}
		if !c.Accept {
			continue
		}
		outs := runAll(h, v.Text, cfgMatrix(c.Seed, modes, 1), 2, 10000)
		for i, o := range outs {
			h.S.Count("runs")
			if o.Res.Outcome != 0 {
				if o.Res.Outcome == 1 {
					return harness.Failf("[%s] the renamed program (%s) crashes while the original runs\nstderr: %s\nbase:\n%s\nrenamed:\n%s", o.Cfg, v.What, harness.Brief(o.Res.Stderr), c.Base, v.Text)
				}
				return outcomeProblem(h, o)
			}
			if o.Resp.Timeout {
				return &harness.Failure{Inconclusive: true, Msg: "timeout"}
			}
			b := baseOuts[i]
			if got, want := mapLabels(o.Resp.Prints, v.PrintMap), b.multiset(); got != want {
				return harness.Failf("[%s] the outcome changes under %s\n  original prints: [%s]\n  renamed prints (mapped back): [%s]\nbase:\n%s\nrenamed:\n%s", o.Cfg, v.What, want, got, c.Base, v.Text)
			}
			if (o.Resp.NRecv > 0) != (b.Resp.NRecv > 0) {
				return harness.Failf("[%s] under %s the program %s while the original %s\n  original: %s\n  renamed:  %s\nbase:\n%s\nrenamed:\n%s", o.Cfg, v.What,
					map[bool]string{true: "leaves processes stuck in a receive", false: "completes"}[o.Resp.NRecv > 0],
					map[bool]string{true: "leaves processes stuck in a receive", false: "completes"}[b.Resp.NRecv > 0], briefRun(b), briefRun(o), c.Base, v.Text)
			}
		}
	}
	return nil
}

func TestC14(t *testing.T) {
	harness.Run(t, harness.Prop{
		ID:    "C14",
		New:   func() interface{} { return &caseC14{} },
		Gen:   genC14,
		Check: checkC14,
		Size:  func(c interface{}) int { return len(c.(*caseC14).Base) },
	})
}

var _ = fmt.Sprint
