package props

import (
	"fmt"
	"strings"
	"testing"

	"pgregory.net/rapid"

	"verif/internal/harness"
	"verif/internal/pool"
	"verif/internal/wire"
)

// prepareAccepted: the run-time properties C02-C04 are about programs that are well typed
// (reference accepts) and that Grits accepts; returns false if the case is outside that domain.
func prepareAccepted(h *harness.H, c *caseRun) (bool, *harness.Failure) {
	if !c.RefAccepts {
		h.S.Eval("")
		h.S.Count("skipped:reference_rejects")
		return false, nil
	}
	if c.RefProblem != "" {
		h.S.Eval("")
		h.S.Count("skipped:reference_semantics_" + strings.SplitN(c.RefProblem, ":", 2)[0])
		if h.S.Counters["notes_refproblem"] < 3 {
			h.S.Count("notes_refproblem")
			h.S.Note("reference semantics problem: " + c.RefProblem + "\n" + c.Text)
		}
		return false, nil
	}
	r, f := checkTotal(h, c.Text)
	if f != nil {
		return false, &harness.Failure{Inconclusive: true}
	}
	if !r.ParseOK || !r.CheckOK {
		// C07's business
		h.S.Eval("")
		h.S.Count("skipped:grits_rejects")
		return false, nil
	}
	return true, nil
}

func outcomeProblem(h *harness.H, o runOut) *harness.Failure {
	switch o.Res.Outcome {
	case pool.OK:
		if o.Resp.InternalE != "" {
			return harness.Failf("worker problem: %s", o.Resp.InternalE)
		}
		return nil
	case pool.Crash:
		// a run-time panic is C01's finding; do not report it twice
		h.S.Count("crash_left_to_C01")
		return &harness.Failure{Inconclusive: true, Msg: "crash"}
	case pool.Hang:
		h.S.Count("worker_hang")
		return &harness.Failure{Inconclusive: true, Msg: "hang"}
	}
	h.S.InfraProblem(o.Res.Stderr)
	return &harness.Failure{Inconclusive: true}
}

func sites(r *wire.Resp) string {
	m := map[string]int{}
	for _, s := range r.Final {
		m[s.State+" @ "+strings.TrimPrefix(s.Site, "grits/process.")]++
	}
	var out []string
	for k, v := range m {
		out = append(out, fmt.Sprintf("%dx %s", v, k))
	}
	return strings.Join(out, ", ")
}

// ---------- C02: progress ----------

func checkC02(h *harness.H, ci interface{}) *harness.Failure {
	c := ci.(*caseRun)
	ok, f := prepareAccepted(h, c)
	if !ok {
		return f
	}
	if c.NegUnconsumed {
		h.S.Eval("")
		h.S.Count("skipped:negative_top_level_provider_unconsumed")
		return nil
	}
	key := ""
	if (c.Forwards+c.Drops+c.Copies) >= 1 && c.Blocked >= 1 {
		key = c.Text
	}
	h.S.Eval(key)
	n := 3
	if h.Thorough() {
		n = 8
	}
	outs := runAll(h, c.Text, cfgMatrix(c.Seed, []int{0, 1}, n), 2, 10000)
	for _, o := range outs {
		if f := outcomeProblem(h, o); f != nil {
			return f
		}
		h.S.Count("runs:" + modeName[o.Cfg.Mode])
		r := o.Resp
		if r.Timeout {
			// still running after 10 s although the reference evaluation terminated: confirm alone
			req := &wire.Req{Op: "run", Text: c.Text, Mode: o.Cfg.Mode, Monitor: o.Cfg.Monitor, Procs: o.Cfg.Procs, YieldSeed: o.Cfg.Yield, TimeoutMs: 30000, WantStacks: true}
			r2 := h.Alone(req, 60e9)
			if r2.Outcome == pool.OK && !r2.Resp.Timeout {
				h.S.Count("timeout_not_reproduced")
				continue
			}
			if r2.Outcome != pool.OK {
				return &harness.Failure{Inconclusive: true}
			}
			return harness.Failf("[%s] the run never becomes quiescent (processes still running after 30 s) although the program terminates in the reference semantics\nstacks: %s\n%s", o.Cfg, harness.Brief(r2.Resp.Stacks), c.Text)
		}
		switch o.Cfg.Mode {
		case 0:
			if r.NRecv+r.NSend+r.NOther > 0 {
				return harness.Failf("[%s] at quiescence %d process(es) are still alive in asynchronous mode (%s); every process should have finished\nreference: %d prints, %d unreceived results\n%s", o.Cfg, r.NRecv+r.NSend+r.NOther, sites(r), len(c.Labels), c.Unreceived, c.Text)
			}
		case 1:
			if r.NRecv > 0 {
				return harness.Failf("[%s] at quiescence %d process(es) are stuck waiting for a message that never comes (%s)\n%s", o.Cfg, r.NRecv, sites(r), c.Text)
			}
			if !c.Contraction && r.NSend != c.Unreceived {
				return harness.Failf("[%s] at quiescence %d process(es) are blocked offering a message, the reference semantics leaves %d results unconsumed (%s): a send is stuck towards a client, or a result was lost\n%s", o.Cfg, r.NSend, c.Unreceived, sites(r), c.Text)
			}
		}
	}
	return nil
}

func TestC02(t *testing.T) {
	harness.Run(t, harness.Prop{
		ID:  "C02",
		New: func() interface{} { return &caseRun{} },
		Gen: func(rt *rapid.T, h *harness.H) interface{} {
			c := genRunCase(rt, h, 25)
			if c == nil {
				return nil
			}
			h.S.Sample(map[string]interface{}{"text": c.Text, "origin": c.Origin, "reference_unreceived": c.Unreceived})
			return c
		},
		Check: checkC02,
		Size:  func(c interface{}) int { return len(c.(*caseRun).Text) },
	})
}

// ---------- C03: determinism ----------

func monitorPrints(r *wire.Resp) []string {
	var out []string
	for _, e := range r.Rules {
		if e.Rule == "PRINT" {
			f := strings.Fields(e.Body)
			if len(f) >= 2 {
				out = append(out, strings.TrimSuffix(f[1], ";"))
			}
		}
	}
	return out
}

func sortedJoin(xs []string) string {
	ys := append([]string{}, xs...)
	sortStrings(ys)
	return strings.Join(ys, " ")
}

func checkC03(h *harness.H, ci interface{}) *harness.Failure {
	c := ci.(*caseRun)
	ok, f := prepareAccepted(h, c)
	if !ok {
		return f
	}
	modes := []int{0, 1}
	if !c.Contraction {
		modes = []int{0, 1, 2}
	}
	n := 3
	if h.Thorough() {
		n = 8
	}
	cfgs := cfgMatrix(c.Seed, modes, n)
	// three plain repetitions of one configuration as well
	cfgs = append(cfgs, runCfg{Mode: 0, Procs: 4}, runCfg{Mode: 0, Procs: 4}, runCfg{Mode: 0, Procs: 4})
	outs := runAll(h, c.Text, cfgs, 2, 10000)
	procsPrinting := map[int]bool{}
	for _, e := range c.Events {
		procsPrinting[e.Proc] = true
	}
	key := ""
	if len(c.Events) >= 2 && len(procsPrinting) >= 2 {
		key = c.Text
	}
	h.S.Eval(key)
	var first *runOut
	for i := range outs {
		o := outs[i]
		if f := outcomeProblem(h, o); f != nil {
			return f
		}
		h.S.Count("runs:" + modeName[o.Cfg.Mode])
		r := o.Resp
		if r.Timeout {
			h.S.Count("timeout")
			return &harness.Failure{Inconclusive: true, Msg: "timeout"}
		}
		if o.Cfg.Monitor {
			if a, b := sortedJoin(monitorPrints(r)), o.multiset(); a != b {
				return harness.Failf("[%s] the monitor's PRINT entries [%s] differ from the labels printed [%s]\n%s", o.Cfg, a, b, c.Text)
			}
		}
		completed := r.NRecv == 0
		if first == nil {
			first = &outs[i]
			continue
		}
		if o.multiset() != first.multiset() {
			return harness.Failf("two runs of the same program print different labels\n  [%s]: %s\n  [%s]: %s\n%s", first.Cfg, first.multiset(), o.Cfg, o.multiset(), c.Text)
		}
		if completed != (first.Resp.NRecv == 0) && o.Cfg.Mode != 2 && first.Cfg.Mode != 2 {
			return harness.Failf("one run completes, another leaves processes stuck in a receive\n  %s\n  %s\n%s", briefRun(*first), briefRun(o), c.Text)
		}
	}
	return nil
}

func TestC03(t *testing.T) {
	harness.Run(t, harness.Prop{
		ID:  "C03",
		New: func() interface{} { return &caseRun{} },
		Gen: func(rt *rapid.T, h *harness.H) interface{} {
			c := genRunCase(rt, h, 20)
			if c == nil {
				return nil
			}
			h.S.Sample(map[string]interface{}{"text": c.Text, "origin": c.Origin})
			return c
		},
		Check: checkC03,
		Size:  func(c interface{}) int { return len(c.(*caseRun).Text) },
	})
}

// ---------- C04: agreement with the reference semantics ----------

func checkC04(h *harness.H, ci interface{}) *harness.Failure {
	c := ci.(*caseRun)
	ok, f := prepareAccepted(h, c)
	if !ok {
		return f
	}
	modes := []int{0, 1}
	if !c.Contraction {
		modes = []int{0, 1, 2}
	}
	n := 2
	if h.Thorough() {
		n = 6
	}
	key := ""
	if c.Cross >= 1 && c.Hops >= 2 && len(c.Events) >= 2 {
		key = c.Text
	}
	h.S.Eval(key)
	if c.Cross >= 1 {
		h.S.Count("has_cross_process_order_edge")
	}
	if c.Hops >= 2 {
		h.S.Count("has_channel_passed_through_2_hops")
	}
	if len(c.Events) >= 2 {
		h.S.Count("has_2_or_more_prints")
	}
	outs := runAll(h, c.Text, cfgMatrix(c.Seed, modes, n), 2, 10000)
	want := strings.Join(c.Labels, " ")
	ref := &refsemResult{events: c.Events}
	for _, o := range outs {
		if f := outcomeProblem(h, o); f != nil {
			return f
		}
		h.S.Count("runs:" + modeName[o.Cfg.Mode])
		r := o.Resp
		if r.Timeout {
			h.S.Count("timeout")
			return &harness.Failure{Inconclusive: true, Msg: "timeout"}
		}
		if got := o.multiset(); got != want {
			return harness.Failf("[%s] printed labels differ from what the SAX semantics of the program produces\n  printed:   [%s]\n  reference: [%s]\n(%s)\n%s", o.Cfg, got, want, c.Origin, c.Text)
		}
		okk, decided, why := ref.linearization(r.Prints)
		if !decided {
			h.S.Count("order_check_undecided")
			continue
		}
		h.S.Count("order_checked")
		if !okk {
			return harness.Failf("[%s] labels are printed in an order that contradicts causality: %s\n  printed order: %s\n%s", o.Cfg, why, strings.Join(r.Prints, " "), c.Text)
		}
	}
	return nil
}

func TestC04(t *testing.T) {
	harness.Run(t, harness.Prop{
		ID:  "C04",
		New: func() interface{} { return &caseRun{} },
		Gen: func(rt *rapid.T, h *harness.H) interface{} {
			c := genRunCase(rt, h, 20)
			if c == nil {
				return nil
			}
			h.S.Sample(map[string]interface{}{"text": c.Text, "origin": c.Origin, "reference_labels": strings.Join(c.Labels, " ")})
			return c
		},
		Check: checkC04,
		Size:  func(c interface{}) int { return len(c.(*caseRun).Text) },
	})
}
