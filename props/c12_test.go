package props

import (
	"encoding/json"
	"fmt"
	"strings"
	"testing"
	"time"

	"pgregory.net/rapid"

	"verif/internal/ast"
	"verif/internal/gen"
	"verif/internal/harness"
	"verif/internal/pool"
	"verif/internal/wire"
)

// C12 — the parser accepts only complete grammatical texts; nothing is silently ignored.

type declList struct {
	Procs   [][]string // provider names of each prc, in order
	Execs   int
	Funcs   []string
	Types   []string
	Assumed []string
}

type caseC12 struct {
	Base     string   // grammatical text, one space between tokens
	Variant  string   // Base with trivia or illegal material
	Kind     string   // "plain" | "trivia" | "illegal"
	Inserted string   // the illegal material
	Expect   declList // declarations written in Base
	After    int      // complete declarations after the insertion point
	Plain    string   // respelled: Base with the chosen identifier replaced by an ordinary fresh one
	Tricky   string   // respelled / minus-o: the identifier used in Variant
}

func expectOf(p *ast.Program) declList {
	var e declList
	for _, d := range p.Decls {
		switch d.Kind {
		case ast.DPrc:
			e.Procs = append(e.Procs, d.Providers)
		case ast.DExec:
			e.Execs++
		case ast.DFun:
			e.Funcs = append(e.Funcs, d.Name)
		case ast.DType:
			e.Types = append(e.Types, d.Name)
		case ast.DAssume:
			for _, pa := range d.Params {
				e.Assumed = append(e.Assumed, pa.Name)
			}
		}
	}
	return e
}

func compareDecls(e declList, d *wire.Dump) string {
	var gotProcs [][]string
	execs := 0
	for _, p := range d.Procs {
		if len(p.Providers) == 1 && strings.HasPrefix(p.Providers[0], "exec") && p.Body != nil && p.Body.F == "CallForm" {
			execs++
			continue
		}
		gotProcs = append(gotProcs, p.Providers)
	}
	if fmt.Sprint(gotProcs) != fmt.Sprint(e.Procs) && !(len(gotProcs) == 0 && len(e.Procs) == 0) {
		return fmt.Sprintf("processes: written %v, parsed %v", e.Procs, gotProcs)
	}
	if execs != e.Execs {
		return fmt.Sprintf("exec declarations: written %d, parsed %d", e.Execs, execs)
	}
	var fs, ts, as []string
	for _, f := range d.Funcs {
		fs = append(fs, f.Name)
	}
	for _, t := range d.Types {
		ts = append(ts, t.Name)
	}
	for _, a := range d.Assumed {
		as = append(as, a.Ident)
	}
	if strings.Join(fs, ",") != strings.Join(e.Funcs, ",") {
		return fmt.Sprintf("functions: written %v, parsed %v", e.Funcs, fs)
	}
	if strings.Join(ts, ",") != strings.Join(e.Types, ",") {
		return fmt.Sprintf("types: written %v, parsed %v", e.Types, ts)
	}
	if strings.Join(as, ",") != strings.Join(e.Assumed, ",") {
		return fmt.Sprintf("assumed names: written %v, parsed %v", e.Assumed, as)
	}
	return ""
}

func checkC12(h *harness.H, ci interface{}) *harness.Failure {
	c := ci.(*caseC12)
	to := 20 * time.Second
	call := func(text string) (*wire.Resp, *harness.Failure) {
		res := h.Call(0, &wire.Req{Op: "parse", Text: text, WantDump: true}, to)
		if res.Outcome != pool.OK {
			// crashes and hangs belong to C11; do not double-report, but do not pass silently either
			h.S.Count("parse_" + res.Outcome.String())
			return nil, &harness.Failure{Inconclusive: true, Msg: "parser " + res.Outcome.String()}
		}
		return res.Resp, nil
	}
	base, f := call(c.Base)
	if f != nil {
		h.S.Eval("")
		return f
	}
	if !base.ParseOK {
		// G-syn programs the parser legitimately refuses (e.g. exec of an undefined function)
		h.S.Eval("")
		h.S.Count("base_rejected")
		return nil
	}
	key := ""
	if c.Kind != "illegal" || c.After >= 1 {
		key = c.Variant
	}
	h.S.Eval(key)
	h.S.Count("kind:" + c.Kind)
	if msg := compareDecls(c.Expect, base.Dump); msg != "" {
		return harness.Failf("declarations of an accepted text differ from what was written: %s\ntext:\n%s", msg, c.Base)
	}
	if c.Kind == "plain" {
		return nil
	}
	v, f := call(c.Variant)
	if f != nil {
		return f
	}
	switch c.Kind {
	case "trivia":
		if !v.ParseOK {
			return harness.Failf("adding only whitespace/comments between tokens made the parser reject the text: %s\nbase:\n%s\nvariant:\n%s", v.ParseErr, c.Base, c.Variant)
		}
		a, _ := json.Marshal(base.Dump)
		b, _ := json.Marshal(v.Dump)
		if string(a) != string(b) {
			msg := compareDecls(c.Expect, v.Dump)
			return harness.Failf("adding only whitespace/comments between tokens changed the parsed program (%s)\nbase:\n%s\nvariant:\n%s", msg, c.Base, c.Variant)
		}
	case "respelled":
		// an identifier that merely begins like a keyword (or with the `o` of `-o`, or ends in primes)
		// is an identifier like any other: same verdict and same program, up to the spelling
		pl, f := call(c.Plain)
		if f != nil {
			return f
		}
		if !pl.ParseOK {
			h.S.Count("respelled_control_rejected")
			return nil
		}
		if !v.ParseOK {
			return harness.Failf("renaming an identifier to %q (everywhere) made the parser reject the text: %s\nwith an ordinary name it is accepted:\n%s\nvariant:\n%s", c.Tricky, v.ParseErr, c.Plain, c.Variant)
		}
		a, _ := json.Marshal(pl.Dump)
		b, _ := json.Marshal(v.Dump)
		unesc := strings.NewReplacer("\\u003c", "<", "\\u003e", ">", "\\u0026", "&")
		if replaceWord(unesc.Replace(string(b)), c.Tricky, "qq7") != unesc.Replace(string(a)) {
			return harness.Failf("the identifier %q is not read like an ordinary identifier: the parsed program differs from the one obtained with the name qq7 in its place\nvariant:\n%s", c.Tricky, c.Variant)
		}
	case "minus-o":
		// `-o` is also a spelling of the lollipop, so a negative polarity glued to a name in o… may
		// be refused; if it is accepted, no letter of the name may be lost
		if v.ParseOK {
			b, _ := json.Marshal(v.Dump)
			if !strings.Contains(string(b), "\""+c.Tricky+"\"") && !strings.Contains(string(b), "\""+c.Tricky+"|") {
				return harness.Failf("the text was accepted, but the name %q written in it does not occur in the parsed program\nvariant:\n%s", c.Tricky, c.Variant)
			}
			h.S.Count("minus_o_accepted_intact")
		} else {
			h.S.Count("minus_o_refused")
		}
	case "punct":
		// every punctuation token of the documented grammar is mandatory where it stands (only
		// parentheses come in optional pairs, and one of a pair is unbalanced): without it, or with
		// it twice, the text is no sentence of the grammar
		if v.ParseOK {
			return harness.Failf("a text with %s was accepted\nbase:\n%s\nvariant:\n%s", c.Inserted, c.Base, c.Variant)
		}
	case "illegal":
		if v.ParseOK {
			msg := compareDecls(c.Expect, v.Dump)
			if msg == "" {
				msg = "all declarations kept, the inserted material was ignored"
			}
			return harness.Failf("text with non-grammatical material %q inserted between two tokens was accepted (%s)\nvariant:\n%s", c.Inserted, msg, c.Variant)
		}
	}
	return nil
}

// punctuation that the documented grammar requires wherever it occurs
var punctTokens = map[string]bool{";": true, ",": true, ":": true, "=": true, "<-": true, "=>": true, ".": true, "|": true, "*": true, "-*": true,
	"/\\": true, "\\/": true, "(": true, ")": true, "{": true, "}": true, "[": true, "]": true, "<": true, ">": true}

var gritsKeywords = map[string]bool{"send": true, "recv": true, "receive": true, "case": true, "close": true, "wait": true, "cast": true, "shift": true,
	"accept": true, "acc": true, "acquire": true, "acq": true, "detach": true, "det": true, "release": true, "rel": true, "drop": true, "split": true, "push": true,
	"new": true, "snew": true, "forward": true, "fwd": true, "type": true, "let": true, "in": true, "end": true, "sprc": true, "prc": true, "self": true,
	"assuming": true, "exec": true, "print": true}

// identifiers that begin like a keyword, like the `o` of `-o`, or that use the rarer characters
var trickyIdents = []string{"selfie", "self'", "self_", "self1", "newt", "new'", "cases", "lets", "letter", "inn", "in1", "typed", "typesx", "printx", "print'",
	"waits", "closed", "sender", "sends", "recvx", "receiver", "dropx", "splits", "shifty", "castle", "fwdx", "forwards", "execs", "execx", "prcs", "prc'",
	"assumingx", "ends", "sprcx", "snewx", "accept'", "accx", "pushx", "relx", "detx", "acqx", "o", "ok", "out", "o'", "o_1", "oo", "x''", "__t", "X9", "l1n", "a_b'c"}

// words the generator writes in mode positions (valid or not): never respelled
var synModeWord = map[string]bool{"foo": true, "shared": true, "lin": true, "aff": true, "rep": true, "mul": true}

// replaceWord replaces whole-identifier occurrences of from in s.
func replaceWord(s, from, to string) string {
	isId := func(c byte) bool {
		return c == '_' || c == '\'' || (c >= '0' && c <= '9') || (c >= 'a' && c <= 'z') || (c >= 'A' && c <= 'Z')
	}
	var sb strings.Builder
	for i := 0; i < len(s); {
		if strings.HasPrefix(s[i:], from) && (i == 0 || !isId(s[i-1])) && (i+len(from) == len(s) || !isId(s[i+len(from)])) {
			sb.WriteString(to)
			i += len(from)
			continue
		}
		sb.WriteByte(s[i])
		i++
	}
	return sb.String()
}

func isPlainIdent(tk string) bool {
	if tk == "" || gritsKeywords[tk] {
		return false
	}
	c := tk[0]
	if !(c == '_' || (c >= 'a' && c <= 'z') || (c >= 'A' && c <= 'Z')) {
		return false
	}
	for i := 0; i < len(tk); i++ {
		c := tk[i]
		if !(c == '_' || c == '\'' || (c >= '0' && c <= '9') || (c >= 'a' && c <= 'z') || (c >= 'A' && c <= 'Z')) {
			return false
		}
	}
	return true
}

func TestC12(t *testing.T) {
	harness.Run(t, harness.Prop{
		ID:  "C12",
		New: func() interface{} { return &caseC12{} },
		Gen: func(rt *rapid.T, h *harness.H) interface{} {
			d := gen.D{T: rt}
			g := &gen.Syn{D: d}
			prog := g.Program()
			// tokens per declaration, so that we know how many complete declarations follow a position
			var toks []string
			var declEnd []int
			for _, dc := range prog.Decls {
				toks = append(toks, gen.Tokens(dc.Text(&astStyleOneLine))...)
				declEnd = append(declEnd, len(toks))
			}
			c := &caseC12{Base: strings.Join(toks, " "), Expect: expectOf(prog)}
			switch d.Pick(8, "variant") {
			case 7: // one punctuation token removed or doubled
				var at []int
				for i, tk := range toks {
					if punctTokens[tk] {
						at = append(at, i)
					}
				}
				if len(at) == 0 {
					return nil
				}
				// `exec f ( )` takes no arguments: names written between its parentheses are no sentence
				var execAt []int
				for i := 0; i+3 < len(toks); i++ {
					if toks[i] == "exec" && isPlainIdent(toks[i+1]) && toks[i+2] == "(" && toks[i+3] == ")" {
						execAt = append(execAt, i+3)
					}
				}
				if len(execAt) > 0 && d.Chance(70, "execargs") {
					i := execAt[d.Pick(len(execAt), "whichexec")]
					ins := d.Of([]string{"x", "x , y", "self", "self , x"}, "execarg")
					c.Kind, c.Inserted = "punct", fmt.Sprintf("%q written between the parentheses of an exec", ins)
					c.Variant = strings.Join(toks[:i], " ") + " " + ins + " " + strings.Join(toks[i:], " ")
					break
				}
				i := at[d.Pick(len(at), "which")]
				c.Kind = "punct"
				var out []string
				// (removing a type operator can leave a sentence: in `A * 1` -> `A 1` the name is read as
				// a mode word; operators are only doubled)
				isOp := toks[i] == "*" || toks[i] == "-*" || toks[i] == "/\\" || toks[i] == "\\/"
				// the same reading arises wherever a removal puts an identifier in front of something that
				// can start a type (`a : A , b` -> `a : A b`: mode word A, type b): such tokens are only doubled
				startsType := func(tk string) bool { return isPlainIdent(tk) || tk == "1" || tk == "(" || tk == "+" || tk == "&" }
				juxtaposes := i > 0 && i+1 < len(toks) && isPlainIdent(toks[i-1]) && startsType(toks[i+1])
				if isOp || juxtaposes || d.Bool("double") {
					out = append(append(append(out, toks[:i+1]...), toks[i]), toks[i+1:]...)
					c.Inserted = fmt.Sprintf("one punctuation token %q doubled (token %d)", toks[i], i)
				} else {
					out = append(append(out, toks[:i]...), toks[i+1:]...)
					c.Inserted = fmt.Sprintf("one punctuation token %q removed (token %d)", toks[i], i)
				}
				c.Variant = strings.Join(out, " ")
			case 5: // one identifier respelled everywhere
				var ids []string
				seen := map[string]bool{}
				for _, tk := range toks {
					if isPlainIdent(tk) && !seen[tk] {
						seen[tk] = true
						if _, isMode := ast.ModeOfWord(strings.ToLower(tk)); !isMode && !synModeWord[strings.ToLower(tk)] {
							ids = append(ids, tk)
						}
					}
				}
				if len(ids) == 0 {
					return nil
				}
				from := ids[d.Pick(len(ids), "ident")]
				c.Kind, c.Tricky = "respelled", d.Of(trickyIdents, "tricky")
				if seen[c.Tricky] || seen["qq7"] {
					return nil
				}
				rep := func(to string) string {
					out := make([]string, len(toks))
					for i, tk := range toks {
						if tk == from {
							tk = to
						}
						out[i] = tk
					}
					return strings.Join(out, " ")
				}
				c.Variant, c.Plain = rep(c.Tricky), rep("qq7")
				// the declaration lists of Base no longer apply to the renamed texts
				c.Expect = expectOf(prog)
			case 6: // a negative polarity glued to a name that starts with o
				var at []int
				for i := 0; i+1 < len(toks); i++ {
					if isPlainIdent(toks[i+1]) && (toks[i] == "<" || toks[i] == "," || toks[i] == "wait" || toks[i] == "drop" || toks[i] == "self") {
						at = append(at, i+1)
					}
				}
				if len(at) == 0 {
					return nil
				}
				i := at[d.Pick(len(at), "where")]
				c.Kind, c.Tricky = "minus-o", d.Of([]string{"out", "ok", "o1", "o'", "oo", "o_x"}, "oname")
				out := append([]string{}, toks...)
				out[i] = "-" + c.Tricky
				c.Variant = strings.Join(out, " ")
			case 0:
				c.Kind, c.Variant = "plain", c.Base
			case 1, 2:
				c.Kind = "trivia"
				var sb strings.Builder
				if d.Chance(30, "leading") {
					sb.WriteString(d.Trivia())
				}
				for i, tk := range toks {
					sb.WriteString(tk)
					if i < len(toks)-1 || d.Chance(50, "trailing") {
						sb.WriteString(d.Trivia())
						if d.Chance(15, "more") {
							sb.WriteString(d.Trivia())
						}
					}
				}
				c.Variant = sb.String()
			default:
				c.Kind = "illegal"
				pos := d.Int(0, len(toks), "pos")
				c.Inserted = d.Of(gen.IllegalMaterial, "illegal")
				for _, e := range declEnd {
					if e > pos {
						c.After++
					}
				}
				if pos < len(toks) {
					// the declaration containing pos is cut, the ones after it are complete
					c.After--
					for _, e := range declEnd {
						if e == pos {
							c.After++ // pos is exactly at a declaration boundary
							break
						}
					}
					if pos == 0 {
						c.After = len(declEnd)
					}
				}
				// usually separated by blanks; for characters that cannot combine with a neighbouring
				// token into something legal also glued to the token before and/or after it
				left, right := " ", " "
				if strings.Contains("@#$~^!?\"`€\x00\x7f\x1b\xffé§", c.Inserted) {
					switch d.Pick(4, "glue") {
					case 1:
						left = ""
					case 2:
						right = ""
					case 3:
						left, right = "", ""
					}
				}
				c.Variant = strings.TrimSpace(strings.Join(toks[:pos], " ") + left + c.Inserted + right + strings.Join(toks[pos:], " "))
				if pos == 0 {
					c.Variant = c.Inserted + right + strings.Join(toks, " ")
				}
			}
			if len(c.Variant) < 500 {
				h.S.Sample(map[string]string{"kind": c.Kind, "text": c.Variant})
			}
			return c
		},
		Check: checkC12,
		Size:  func(c interface{}) int { return len(c.(*caseC12).Variant) },
	})
}
