package props

import (
	"fmt"
	"sort"
	"strings"
	"sync"
	"time"

	"verif/internal/harness"
	"verif/internal/pool"
	"verif/internal/wire"
)

// runCfg is one execution configuration of the interpreter.
type runCfg struct {
	Mode    int // 0 async polarized, 1 sync polarized, 2 sync non-polarized
	Monitor bool
	Procs   int
	Yield   uint64
	Entry   string
}

var modeName = []string{"async", "sync", "sync-np"}

func (c runCfg) String() string {
	return fmt.Sprintf("%s/monitor=%v/GOMAXPROCS=%d/yield=%d%s", modeName[c.Mode], c.Monitor, c.Procs, c.Yield, map[bool]string{true: "/" + c.Entry, false: ""}[c.Entry != ""])
}

type runOut struct {
	Cfg  runCfg
	Res  pool.Result
	Resp *wire.Resp
}

func (o runOut) multiset() string {
	p := append([]string{}, o.Resp.Prints...)
	sort.Strings(p)
	return strings.Join(p, " ")
}

// runAll executes text under every configuration, spreading the runs over `par` workers of
// this shard (workers 1..par; worker 0 is kept for checker calls).
func runAll(h *harness.H, text string, cfgs []runCfg, par int, timeoutMs int) []runOut {
	out := make([]runOut, len(cfgs))
	var wg sync.WaitGroup
	idx := make(chan int, len(cfgs))
	for i := range cfgs {
		idx <- i
	}
	close(idx)
	for w := 1; w <= par; w++ {
		w := w
		wg.Add(1)
		go func() {
			defer wg.Done()
			for i := range idx {
				c := cfgs[i]
				req := &wire.Req{Op: "run", Text: text, Mode: c.Mode, Monitor: c.Monitor, Procs: c.Procs, YieldSeed: c.Yield, Entry: c.Entry, TimeoutMs: timeoutMs, PostAPI: true}
				res := h.Call(w, req, time.Duration(timeoutMs)*time.Millisecond+20*time.Second)
				out[i] = runOut{Cfg: c, Res: res, Resp: res.Resp}
			}
		}()
	}
	wg.Wait()
	return out
}

// cfgMatrix draws the configurations for one program from a seed.
func cfgMatrix(seed uint64, modes []int, n int) []runCfg {
	procs := []int{1, 2, 4, 16}
	var out []runCfg
	x := seed
	next := func() uint64 {
		x += 0x9e3779b97f4a7c15
		z := x
		z = (z ^ (z >> 30)) * 0xbf58476d1ce4e5b9
		z = (z ^ (z >> 27)) * 0x94d049bb133111eb
		return z ^ (z >> 31)
	}
	for _, m := range modes {
		for i := 0; i < n; i++ {
			r := next()
			c := runCfg{Mode: m, Monitor: r&1 == 1, Procs: procs[(r>>1)%4]}
			if (r>>3)%4 != 0 {
				c.Yield = 1 + (r>>8)%1000000
			}
			out = append(out, c)
		}
	}
	return out
}
