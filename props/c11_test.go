package props

import (
	"fmt"
	"regexp"
	"strings"
	"testing"
	"time"

	"pgregory.net/rapid"

	"verif/internal/gen"
	"verif/internal/harness"
	"verif/internal/pool"
	"verif/internal/wire"
)

// C11 — parsing is total and prompt: every byte string yields a program or an error.

type caseText struct {
	Text  string
	Kind  string
	Scale *gen.Scale // for size-driven inputs: how to rebuild the same shape at another size
}

var posRe = regexp.MustCompile(`\d+:\d+`)

func parseBound(n int) time.Duration {
	return 300*time.Millisecond + time.Duration(n)*15*time.Microsecond
}

func short(s string, n int) string {
	if len(s) > n {
		return s[:n] + "…(" + itoa(len(s)) + " bytes)"
	}
	return s
}

func itoa(n int) string {
	if n == 0 {
		return "0"
	}
	var b []byte
	for n > 0 {
		b = append([]byte{byte('0' + n%10)}, b...)
		n /= 10
	}
	return string(b)
}

func checkC11(h *harness.H, ci interface{}) *harness.Failure {
	c := ci.(*caseText)
	req := &wire.Req{Op: "parse", Text: c.Text}
	res := h.Call(0, req, 20*time.Second+20*parseBound(len(c.Text)))
	nontrivial := ""
	if res.Outcome != pool.OK || (res.Resp != nil && !res.Resp.ParseOK && len(c.Text) > 0) || len(c.Text) > 10000 {
		nontrivial = c.Text
	}
	h.S.Eval(nontrivial)
	h.S.Count("kind:" + c.Kind)
	switch res.Outcome {
	case pool.OK:
		r := res.Resp
		if r.InternalE != "" {
			return harness.Failf("parser returned neither a program nor an error: %s\ninput: %q", r.InternalE, short(c.Text, 300))
		}
		if r.ParseOK {
			h.S.Count("accepted")
		} else {
			h.S.Count("rejected")
			if strings.HasPrefix(r.ParseErr, "Parse failed") && !posRe.MatchString(r.ParseErr) {
				return harness.Failf("syntax error without a position: %q\ninput: %q", r.ParseErr, short(c.Text, 300))
			}
		}
		// Size-driven shapes: compare n with 2n right away (cheap), so that super-linear behaviour is
		// noticed long before it exceeds any absolute bound; the verdict still comes from the
		// experiment run alone.
		if c.Scale != nil && c.Scale.Count >= 64 && r.ParseOK == r.ParseOK {
			r2 := h.Call(0, &wire.Req{Op: "parse", Text: c.Scale.Build(2 * c.Scale.Count)}, 120*time.Second)
			if r2.Outcome == pool.OK {
				a1, a2 := r.ParseAllocBytes, r2.Resp.ParseAllocBytes
				h.S.Count("doubling_probe")
				if a2 > 16<<20 && a1 > 0 && float64(a2)/float64(a1) > 2.6 {
					super, desc, ok := scalingExperiment(h, c.Scale)
					if ok && super {
						return knownN17(c, harness.Failf("parsing work grows faster than linearly for %s inputs: %s\ninput: %q", c.Kind, desc, short(c.Text, 300)))
					}
					h.S.Count("doubling_probe_not_confirmed")
				}
			}
		}
		// Thread CPU time, so that a busy machine cannot make a parse look slow. The absolute bound is
		// only a trigger: contention still inflates CPU time, so the verdict comes from a scaling
		// experiment (same shape at n and 2n, measured back to back in a fresh worker).
		if d := time.Duration(r.ParseCPUUs) * time.Microsecond; d > parseBound(len(c.Text)) {
			if c.Scale != nil && c.Scale.Count >= 8 {
				super, desc, ok := scalingExperiment(h, c.Scale)
				if !ok {
					return &harness.Failure{Inconclusive: true, Msg: "scaling experiment failed"}
				}
				if super {
					return knownN17(c, harness.Failf("parsing work grows faster than linearly for %s inputs: %s\ninput: %q", c.Kind, desc, short(c.Text, 300)))
				}
				h.S.Count("slow_but_linear")
				return nil
			}
			hard := 10*time.Second + time.Duration(len(c.Text))*50*time.Microsecond
			if d <= hard {
				h.S.Count("slow_below_hard_bound")
				return nil
			}
			r2 := h.Alone(req, 300*time.Second)
			if r2.Outcome == pool.OK && time.Duration(r2.Resp.ParseCPUUs)*time.Microsecond <= hard {
				h.S.Count("slow_not_reproduced")
				return nil
			}
			return harness.Failf("parsing %d bytes took %v of CPU time (bound %v), reproduced alone (%s)\ninput: %q", len(c.Text), d, hard, r2.Outcome, short(c.Text, 300))
		}
		return nil
	case pool.Infra:
		h.S.InfraProblem(res.Stderr)
		return &harness.Failure{Inconclusive: true, Msg: res.Stderr}
	}
	// crash or hang: confirm alone with a 6x larger bound
	r2 := h.Alone(req, 60*time.Second+60*parseBound(len(c.Text)))
	if r2.Outcome == pool.OK {
		h.S.Count("crash_or_hang_not_reproduced")
		return &harness.Failure{Inconclusive: true, Msg: "not reproduced alone"}
	}
	if r2.Outcome == pool.Infra {
		h.S.InfraProblem(r2.Stderr)
		return &harness.Failure{Inconclusive: true, Msg: r2.Stderr}
	}
	what := "the parser crashed the host process"
	if r2.Outcome == pool.Hang {
		what = "the parser did not return within " + (60*time.Second + 60*parseBound(len(c.Text))).String()
	}
	return harness.Failf("%s (kind %s, %d bytes)\ninput: %q\nstderr: %s", what, c.Kind, len(c.Text), short(c.Text, 400), harness.Brief(r2.Stderr))
}

// scalingExperiment parses the shape at n, 2n and 4n in a fresh worker and compares the bytes
// allocated by the parse, which (unlike wall-clock, process CPU or thread CPU time, all of which
// were tried and all of which vary with machine load, page-fault cost and GC parallelism) is a
// function of the input alone. Linear work allocates ~2x at each doubling (the LALR stack doubles
// geometrically), n log n ~2.1x, quadratic copying ~4x. superLinear is true iff the allocation grows
// by more than 2.6x at both doublings and the 4n parse allocates more than 64 MB.
// knownN17: the known finding is the free-name computation that ParseString performs for a process
// declared under several provider names (quadratic allocation, cubic time in the number of
// distinct free names of its body). It is recognised by its trigger - a size-driven input whose
// fixed prefix declares one process with two or more provider names and whose repeated part adds
// distinct names to that process' body; any other super-linear shape stays a violation.
func knownN17(c *caseText, f *harness.Failure) *harness.Failure {
	if c.Scale != nil && c.Scale.Numbered && multiProviderPrefix.MatchString(c.Scale.Prefix) && !strings.Contains(c.Scale.Open, "prc") {
		f.Known = "N17"
	}
	return f
}

var multiProviderPrefix = regexp.MustCompile(`^prc\[[^\],]+,[^\]]+\][^\n]*=[^\n]*$`)

func scalingExperiment(h *harness.H, sc *gen.Scale) (superLinear bool, desc string, ok bool) {
	w, err := pool.Start(h.Opts())
	if err != nil {
		return false, "", false
	}
	defer w.Kill()
	measure := func(n int) (int64, time.Duration, bool) {
		res := w.Call(&wire.Req{Op: "parse", Text: sc.Build(n)}, 900*time.Second)
		if res.Outcome != pool.OK {
			return 0, 0, false
		}
		return res.Resp.ParseAllocBytes, time.Duration(res.Resp.ParseCPUUs) * time.Microsecond, true
	}
	a1, t1, ok1 := measure(sc.Count)
	a2, t2, ok2 := measure(2 * sc.Count)
	a4, t4, ok4 := measure(4 * sc.Count)
	if !ok1 || !ok2 || !ok4 || a1 <= 0 || a2 <= 0 {
		return false, "", false
	}
	r1, r2 := float64(a2)/float64(a1), float64(a4)/float64(a2)
	desc = fmt.Sprintf("n=%d: %d MB allocated (%v), n=%d: %d MB (x%.1f, %v), n=%d: %d MB (x%.1f, %v); measured in a fresh worker", sc.Count, a1>>20, t1, 2*sc.Count, a2>>20, r1, t2, 4*sc.Count, a4>>20, r2, t4)
	return a4 > 64<<20 && r1 > 2.6 && r2 > 2.6, desc, true
}

func TestC11(t *testing.T) {
	harness.Run(t, harness.Prop{
		ID:  "C11",
		New: func() interface{} { return &caseText{} },
		Gen: func(rt *rapid.T, h *harness.H) interface{} {
			d := gen.D{T: rt}
			base := func() string {
				g := &gen.Syn{D: d}
				st := &astStyle
				if d.Bool("oneline") {
					st = &astStyleOneLine
				}
				return g.Program().Text(st)
			}
			txt, kind, sc := d.TextScaled(base)
			c := &caseText{Text: txt, Kind: kind, Scale: sc}
			if len(txt) < 600 {
				h.S.Sample(c)
			}
			return c
		},
		Check: checkC11,
		Size:  func(c interface{}) int { return len(c.(*caseText).Text) },
		Setup: func(h *harness.H) {
			if h.Replay || h.ShardN != 0 {
				return
			}
			// exhaustive: every text of one or two characters over the language's alphabet (plus NUL,
			// a non-ASCII byte and a character outside the alphabet)
			alpha := []string{"/", "\\", "*", "-", "<", ">", "=", "1", "a", "o", "(", ")", "{", "}", "[", "]", ":", ";", ",", ".", "+", "&", "%", "'", "_", " ", "\n", "\x00", "\xff", "@", "|"}
			for _, a := range alpha {
				for _, b := range append([]string{""}, alpha...) {
					cs := &caseText{Text: a + b, Kind: "tiny"}
					if f := checkC11(h, cs); f != nil && !f.Inconclusive {
						h.Record(f, cs, len(cs.Text))
						t.Fatalf("%s", f.Msg)
					}
				}
			}
			h.S.Count("exhaustive_1_and_2_character_texts")
			h.S.Note("exhaustive: all 1- and 2-character texts over a 31-symbol alphabet")
		},
	})
}
