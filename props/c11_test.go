package props

import (
	"regexp"
	"strings"
	"testing"
	"time"

	"pgregory.net/rapid"

	"verif/internal/gen"
	"verif/internal/harness"
	"verif/internal/pool"
	"verif/internal/wire"
)

// C11 — parsing is total and prompt: every byte string yields a program or an error.

type caseText struct {
	Text string
	Kind string
}

var posRe = regexp.MustCompile(`\d+:\d+`)

func parseBound(n int) time.Duration {
	return 500*time.Millisecond + time.Duration(n)*50*time.Microsecond
}

func short(s string, n int) string {
	if len(s) > n {
		return s[:n] + "…(" + itoa(len(s)) + " bytes)"
	}
	return s
}

func itoa(n int) string {
	if n == 0 {
		return "0"
	}
	var b []byte
	for n > 0 {
		b = append([]byte{byte('0' + n%10)}, b...)
		n /= 10
	}
	return string(b)
}

func checkC11(h *harness.H, ci interface{}) *harness.Failure {
	c := ci.(*caseText)
	req := &wire.Req{Op: "parse", Text: c.Text}
	res := h.Call(0, req, 5*time.Second+2*parseBound(len(c.Text)))
	nontrivial := ""
	if res.Outcome != pool.OK || (res.Resp != nil && !res.Resp.ParseOK && len(c.Text) > 0) || len(c.Text) > 10000 {
		nontrivial = c.Text
	}
	h.S.Eval(nontrivial)
	h.S.Count("kind:" + c.Kind)
	switch res.Outcome {
	case pool.OK:
		r := res.Resp
		if r.InternalE != "" {
			return harness.Failf("parser returned neither a program nor an error: %s\ninput: %q", r.InternalE, short(c.Text, 300))
		}
		if r.ParseOK {
			h.S.Count("accepted")
		} else {
			h.S.Count("rejected")
			if strings.HasPrefix(r.ParseErr, "Parse failed") && !posRe.MatchString(r.ParseErr) {
				return harness.Failf("syntax error without a position: %q\ninput: %q", r.ParseErr, short(c.Text, 300))
			}
		}
		if d := time.Duration(r.ParseUs) * time.Microsecond; d > parseBound(len(c.Text)) {
			// re-measure alone before believing it
			r2 := h.Alone(req, 60*time.Second)
			if r2.Outcome == pool.OK && time.Duration(r2.Resp.ParseUs)*time.Microsecond <= parseBound(len(c.Text)) {
				h.S.Count("slow_not_reproduced")
				return nil
			}
			return harness.Failf("parsing %d bytes took %v (bound %v), reproduced alone (%s)\ninput: %q", len(c.Text), d, parseBound(len(c.Text)), r2.Outcome, short(c.Text, 300))
		}
		return nil
	case pool.Infra:
		h.S.InfraProblem(res.Stderr)
		return &harness.Failure{Inconclusive: true, Msg: res.Stderr}
	}
	// crash or hang: confirm alone with a 6x larger bound
	r2 := h.Alone(req, 30*time.Second+6*parseBound(len(c.Text)))
	if r2.Outcome == pool.OK {
		h.S.Count("crash_or_hang_not_reproduced")
		return &harness.Failure{Inconclusive: true, Msg: "not reproduced alone"}
	}
	if r2.Outcome == pool.Infra {
		h.S.InfraProblem(r2.Stderr)
		return &harness.Failure{Inconclusive: true, Msg: r2.Stderr}
	}
	what := "the parser crashed the host process"
	if r2.Outcome == pool.Hang {
		what = "the parser did not return within " + (30*time.Second + 6*parseBound(len(c.Text))).String()
	}
	return harness.Failf("%s (kind %s, %d bytes)\ninput: %q\nstderr: %s", what, c.Kind, len(c.Text), short(c.Text, 400), harness.Brief(r2.Stderr))
}

func TestC11(t *testing.T) {
	harness.Run(t, harness.Prop{
		ID:  "C11",
		New: func() interface{} { return &caseText{} },
		Gen: func(rt *rapid.T, h *harness.H) interface{} {
			d := gen.D{T: rt}
			base := func() string {
				g := &gen.Syn{D: d}
				st := &astStyle
				if d.Bool("oneline") {
					st = &astStyleOneLine
				}
				return g.Program().Text(st)
			}
			txt, kind := d.Text(base)
			c := &caseText{Text: txt, Kind: kind}
			if len(txt) < 600 {
				h.S.Sample(c)
			}
			return c
		},
		Check: checkC11,
		Size:  func(c interface{}) int { return len(c.(*caseText).Text) },
	})
}
