package props

import (
	"strings"
	"testing"
	"time"

	"pgregory.net/rapid"

	"verif/internal/gen"
	"verif/internal/harness"
	"verif/internal/pool"
	"verif/internal/wire"
)

// C09 — typechecking is total: always a verdict, never a crash, hang, success-after-failure
// or background work that later kills the host.

type caseC09 struct {
	Text string
	Kind string
}

func settleMs(h *harness.H) int {
	if h.Thorough() {
		return 8000
	}
	return 4000
}

// checkTotal runs the `check` op and applies the totality oracle. It is shared with other
// properties that need a verdict and must not be confused by a dying checker.
func checkTotal(h *harness.H, text string) (*wire.Resp, *harness.Failure) {
	req := &wire.Req{Op: "check", Text: text, SettleMs: settleMs(h)}
	res := h.Call(0, req, 30*time.Second)
	if res.Outcome == pool.Infra {
		h.S.InfraProblem(res.Stderr)
		return nil, &harness.Failure{Inconclusive: true}
	}
	if res.Outcome != pool.OK {
		req2 := *req
		req2.SettleMs = 20000
		r2 := h.Alone(&req2, 90*time.Second)
		switch r2.Outcome {
		case pool.OK:
			if r2.Resp.Settled {
				h.S.Count("crash_or_hang_not_reproduced")
				return nil, &harness.Failure{Inconclusive: true, Msg: "not reproduced alone"}
			}
			return r2.Resp, harness.Failf("after returning a verdict the typechecker keeps running in the background for more than 20 s\n%s", text)
		case pool.Infra:
			h.S.InfraProblem(r2.Stderr)
			return nil, &harness.Failure{Inconclusive: true}
		case pool.Hang:
			return nil, harness.Failf("process.Typecheck did not return within 90 s\n%s\nstderr: %s", text, harness.Brief(r2.Stderr))
		}
		f := harness.Failf("typechecking killed the host process (verdict may already have been returned)\n%s\nstderr: %s", text, harness.Brief(r2.Stderr))
		return nil, f
	}
	r := res.Resp
	if !r.ParseOK {
		return r, nil
	}
	if !r.CheckOK && strings.Contains(r.CheckErr, "internal typechecker error") {
		return r, harness.Failf("the typechecker panicked internally (recovered and reported as %q)\n%s", r.CheckErr, text)
	}
	if !r.CheckOK && strings.TrimSpace(r.CheckErr) == "" {
		return r, harness.Failf("rejected without a descriptive error\n%s", text)
	}
	// the verdict must not depend on how the caller and the checker goroutine are scheduled: repeat
	// with the caller delayed right after the goroutine is started (hook point 11)
	if (len(text)+int(h.Seed))%3 == 0 {
		req3 := *req
		req3.YieldSeed = uint64(1 + len(text)%7)
		r3 := h.Call(0, &req3, 30*time.Second)
		if r3.Outcome == pool.OK && r3.Resp.ParseOK && r3.Resp.CheckOK != r.CheckOK {
			// once more, to make sure which of the two is the unstable one
			r4 := h.Call(0, req, 30*time.Second)
			if r4.Outcome == pool.OK {
				return r, harness.Failf("the verdict depends on scheduling: %q normally, %q when the caller is delayed after starting the checker goroutine (and %q on a third call)\n%s", verdictStr(r), verdictStr(r3.Resp), verdictStr(r4.Resp), text)
			}
		}
		h.S.Count("verdict_checked_with_delayed_caller")
	}
	if !r.Settled {
		// background work still running after the verdict: watch it alone until it settles or dies
		req2 := *req
		req2.SettleMs = 20000
		r2 := h.Alone(&req2, 90*time.Second)
		if r2.Outcome == pool.OK && r2.Resp.Settled {
			h.S.Count("slow_settle")
			return r, nil
		}
		if r2.Outcome == pool.Infra {
			return nil, &harness.Failure{Inconclusive: true}
		}
		return r, harness.Failf("the typechecker returned %q but left work running in the background that %s\n%s\nstderr: %s",
			verdictStr(r), map[bool]string{true: "never settles", false: "kills the host process"}[r2.Outcome == pool.OK], text, harness.Brief(r2.Stderr))
	}
	return r, nil
}

func verdictStr(r *wire.Resp) string {
	if r.CheckOK {
		return "success"
	}
	return "error: " + r.CheckErr
}

func checkC09(h *harness.H, ci interface{}) *harness.Failure {
	c := ci.(*caseC09)
	r, f := checkTotal(h, c.Text)
	key := ""
	if r != nil && r.ParseOK && strings.Count(c.Text, "\n") >= 2 {
		key = c.Text
	}
	if f != nil && !f.Inconclusive {
		key = c.Text
	}
	h.S.Eval(key)
	h.S.Count("kind:" + c.Kind)
	if r != nil {
		switch {
		case !r.ParseOK:
			h.S.Count("unparseable")
		case r.CheckOK:
			h.S.Count("accepted")
		default:
			h.S.Count("rejected")
		}
		if r.Leftover > 0 {
			h.S.Count("parked_leftover_goroutine")
		}
	}
	return f
}

func TestC09(t *testing.T) {
	harness.Run(t, harness.Prop{
		ID:  "C09",
		New: func() interface{} { return &caseC09{} },
		Gen: func(rt *rapid.T, h *harness.H) interface{} {
			d := gen.D{T: rt}
			c := &caseC09{}
			switch d.Pick(8, "source") {
			case 0, 1: // type environments with one defect and trivial users
				cc := genC10(rt, h).(*caseC10)
				c.Text, c.Kind = cc.Text, "types:"+cc.Class
			case 4: // recursive types met out of phase through forwards, calls and typed cuts
				cc := equalityProgram(rt, h)
				if cc == nil {
					return nil
				}
				c.Text, c.Kind = cc.Text, "typed:equality program"
			case 2, 3: // what C07 judges: well-typed programs, their mutants, equality programs (recursive
				// types related through forwards, calls and cuts), mode matrices
				ci := genC07(rt, h)
				cc, ok := ci.(*caseC07)
				if !ok || cc == nil {
					return nil
				}
				kind := "typed:" + cc.Expect
				if i := strings.Index(cc.Mutant, ":"); i > 0 {
					kind = "typed:" + cc.Mutant[:i]
				}
				c.Text, c.Kind = cc.Text, kind
			default:
				g := &gen.Syn{D: d, NoAssuming: d.Bool("closed")}
				c.Text, c.Kind = g.Program().Text(&astStyle), "syn"
			}
			h.S.Sample(c)
			return c
		},
		Check: checkC09,
		Size:  func(c interface{}) int { return len(c.(*caseC09).Text) },
	})
}
