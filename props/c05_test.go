package props

import (
	"strings"
	"testing"

	"pgregory.net/rapid"

	"verif/internal/gen"
	"verif/internal/harness"
	"verif/internal/refcheck"
)

// C05 — substructural discipline; C06 — mode independence and shift legality.
// Both are implications: if Grits accepts, the reference must not reject for a reason of the class.

var substructuralMutations = []string{"binder-to-scope", "case-payload-to-scope", "binder-to-alias", "alias-to-live", "cut-reuse-self-as-name",
	"binder-to-alias", "alias-to-live", "binder-to-alias", "alias-to-live", "binder-to-alias", "case-payload-to-scope", "binder-to-scope", "drop-statement", "dup-statement", "rename-binder",
	"rename-use", "wait-to-drop", "insert-drop", "insert-split", "extra-provider", "swap-statements", "arity-minus", "drop-branch", "merge-binders", "merge-binders"}

var modeMutations = []string{"param-mode", "ret-mode", "ann-mode", "prc-mode", "shift-words", "ann-mode", "ret-mode", "param-mode"}

func checkImplication(h *harness.H, c *caseC07, class map[string]bool, what string) *harness.Failure {
	key := ""
	if c.NonTriv {
		key = c.Text
	}
	h.S.Eval(key)
	h.S.Count("expect:" + c.Expect)
	if c.Reason != "" {
		h.S.Count("reason:" + c.Reason)
	}
	r, f := checkTotal(h, c.Text)
	if f != nil {
		return f
	}
	if !r.ParseOK {
		h.S.Count("refused_by_parser")
		return nil
	}
	if r.CheckOK {
		h.S.Count("grits:accept")
	} else {
		h.S.Count("grits:reject")
	}
	if r.CheckOK && c.Expect == "reject" && class[c.Reason] {
		f := harness.Failf("accepted although it breaks the %s (%s: %s)\n(mutation: %q)\n%s", what, c.Reason, c.Detail, c.Mutant, c.Text)
		classifyKnown(c, f)
		return f
	}
	return nil
}

func genImplication(kinds []string, classOf map[string]bool) func(rt *rapid.T, h *harness.H) interface{} {
	return func(rt *rapid.T, h *harness.H) interface{} {
		d := gen.D{T: rt}
		if d.Chance(12, "garbage") {
			// arbitrary grammatical programs: interesting only when Grits accepts them
			g := &gen.Syn{D: d, NoAssuming: true, ValidModesOnly: true}
			p := g.Program()
			v, _ := refcheck.Program(p, true)
			if v.Unknown {
				h.S.Count("reference_unknown")
				return nil
			}
			c := &caseC07{Text: p.Text(nil), Mutant: "g-syn", Reason: v.Reason, Detail: v.Detail, Site: v.Site, Expect: "reject"}
			if v.Accept {
				c.Expect = "accept"
			}
			return c
		}
		p, g := genProgram(rt, h)
		if p == nil {
			return nil
		}
		var c *caseC07
		if d.Chance(80, "mutate") {
			c = mutantCase(rt, h, p, kinds)
			if c == nil {
				return nil
			}
			h.S.Count("mutation:" + c.Mutant[:strings.Index(c.Mutant, ":")] + "->" + c.Expect + ":" + c.Reason)
			c.NonTriv = classOf[c.Reason]
		} else {
			c = &caseC07{Text: p.Text(nil), Expect: "accept", Feats: g.Feat, NonTriv: false}
		}
		h.S.Sample(map[string]interface{}{"text": c.Text, "reference": c.Expect, "mutation": c.Mutant, "reason": c.Reason})
		return c
	}
}

func TestC05(t *testing.T) {
	harness.Run(t, harness.Prop{
		ID:  "C05",
		New: func() interface{} { return &caseC07{} },
		Gen: genImplication(substructuralMutations, refcheck.Substructural),
		Check: func(h *harness.H, c interface{}) *harness.Failure {
			return checkImplication(h, c.(*caseC07), refcheck.Substructural, "substructural discipline")
		},
		Size: func(c interface{}) int { return len(c.(*caseC07).Text) },
	})
}

func TestC06(t *testing.T) {
	harness.Run(t, harness.Prop{
		ID:  "C06",
		New: func() interface{} { return &caseC07{} },
		Gen: genImplication(modeMutations, refcheck.ModeReasons),
		Check: func(h *harness.H, c interface{}) *harness.Failure {
			return checkImplication(h, c.(*caseC07), refcheck.ModeReasons, "mode discipline (independence / shift legality)")
		},
		Size: func(c interface{}) int { return len(c.(*caseC07).Text) },
	})
}
