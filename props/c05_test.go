package props

import (
	"fmt"
	"strings"
	"testing"

	"pgregory.net/rapid"

	"verif/internal/ast"
	"verif/internal/gen"
	"verif/internal/harness"
	"verif/internal/refcheck"
	"verif/internal/reftypes"
)

// C05 — substructural discipline; C06 — mode independence and shift legality.
// Both are implications: if Grits accepts, the reference must not reject for a reason of the class.

var substructuralMutations = []string{"binder-to-scope", "case-payload-to-scope", "binder-to-alias", "alias-to-live", "cut-reuse-self-as-name",
	"binder-to-alias", "alias-to-live", "binder-to-alias", "alias-to-live", "binder-to-alias", "case-payload-to-scope", "binder-to-scope", "drop-statement", "dup-statement", "rename-binder",
	"rename-use", "wait-to-drop", "insert-drop", "insert-split", "extra-provider", "swap-statements", "arity-minus", "drop-branch", "merge-binders", "merge-binders", "drop-statement", "drop-statement", "drop-statement", "extra-provider", "extra-provider", "shadow-and-forget", "shadow-and-forget", "shadow-and-forget"}

var modeMutations = []string{"param-mode", "ret-mode", "ann-mode", "prc-mode", "shift-words", "ann-mode", "ret-mode", "param-mode"}

func checkImplication(h *harness.H, c *caseC07, class map[string]bool, what string) *harness.Failure {
	key := ""
	if c.NonTriv {
		key = c.Text
	}
	h.S.Eval(key)
	h.S.Count("expect:" + c.Expect)
	if c.Reason != "" {
		h.S.Count("reason:" + c.Reason)
	}
	r, f := checkTotal(h, c.Text)
	if f != nil {
		return f
	}
	if !r.ParseOK {
		h.S.Count("refused_by_parser")
		return nil
	}
	if r.CheckOK {
		h.S.Count("grits:accept")
	} else {
		h.S.Count("grits:reject")
	}
	if r.CheckOK && c.Expect == "reject" && inClass(class, c) {
		f := harness.Failf("accepted although it breaks the %s (%s: %s)\n(mutation: %q)\n%s", what, c.Reason, c.Detail, c.Mutant, c.Text)
		classifyKnown(c, f)
		return f
	}
	return nil
}

// inClass: the reference's reason belongs to the class; an ill-formed type counts by what is ill
// about it ("ill-formed-type:illegal-shift" is a mode matter, a duplicate label is not).
func inClass(class map[string]bool, c *caseC07) bool {
	return class[c.Reason] || c.Reason == refcheck.IllType && class[c.Reason+":"+c.Site]
}

var modeClass = map[string]bool{refcheck.Independence: true, refcheck.ShiftMode: true,
	refcheck.IllType + ":" + reftypes.ModeMismatch: true, refcheck.IllType + ":" + reftypes.IllegalShift: true}

// independenceMatrix: one function definition whose parameters and provider range over all mode
// combinations (`let f(p1 : m1 A1, …, pk : mk Ak) : m A = …`, also with an explicit provider), in
// every order; the body uses every parameter up, so the only question is the declaration's own
// judgement: every mi can be down-shifted to m.
func independenceMatrix(rt *rapid.T, h *harness.H) *caseC07 {
	d := gen.D{T: rt}
	p := &ast.Program{}
	m := ast.Mode(d.Pick(4, "provider"))
	k := d.Int(1, 4, "nparams")
	f := &ast.Decl{Kind: ast.DFun, Name: "f"}
	one := func(m ast.Mode) *ast.Ty {
		t := ast.One(m)
		t.Ann = m.String()
		return t
	}
	body := &ast.Term{Kind: ast.TClose, X: ast.SelfNm}
	var pre []*ast.Term
	for i := 0; i < k; i++ {
		mi := ast.Mode(d.Pick(4, "parammode"))
		n := fmt.Sprintf("p%d", i+1)
		switch d.Pick(5, "paramtype") {
		case 0, 1:
			f.Params = append(f.Params, ast.Param{Name: n, Ty: one(mi)})
			pre = append(pre, &ast.Term{Kind: ast.TWait, X: ast.N(n)})
		case 2, 3:
			// a down shift (or two nested ones) with freely drawn modes: `m1 \/ m2 1`,
			// `m1 \/ m2 (m3 \/ m4 1)`; the channel's own mode is the target of the outer shift. Legal
			// shifts, continuation modes that fit, and independence are all the reference's to judge
			mk := func(from, to ast.Mode, c *ast.Ty) *ast.Ty {
				return &ast.Ty{K: ast.KDown, M: to, L: c, FromW: from.String(), ToW: to.String()}
			}
			inner := ast.One(ast.Mode(d.Pick(4, "m1")))
			t := mk(inner.M, mi, inner)
			uses := []*ast.Term{{Kind: ast.TShift, X: ast.N(n + "s"), Z: ast.N(n)}}
			last := n + "s"
			if d.Chance(45, "nested") {
				m3, m4 := ast.Mode(d.Pick(4, "m3")), ast.Mode(d.Pick(4, "m4"))
				if d.Likely(60, "fits") {
					m3 = inner.M // the continuation of the outer shift really has the mode the shift comes from
				}
				in2 := ast.One(m4)
				t = mk(inner.M, mi, mk(m4, m3, in2))
				uses = append(uses, &ast.Term{Kind: ast.TShift, X: ast.N(n + "t"), Z: ast.N(n + "s")})
				last = n + "t"
			}
			f.Params = append(f.Params, ast.Param{Name: n, Ty: t})
			uses = append(uses, &ast.Term{Kind: ast.TWait, X: ast.N(last)})
			pre = append(pre, uses...)
		default:
			t := ast.Tensor(mi, ast.One(mi), ast.One(mi))
			t.Ann = mi.String()
			f.Params = append(f.Params, ast.Param{Name: n, Ty: t})
			pre = append(pre, &ast.Term{Kind: ast.TRecv, X: ast.N(n + "a"), Y: ast.N(n + "b"), Z: ast.N(n)},
				&ast.Term{Kind: ast.TWait, X: ast.N(n + "a")}, &ast.Term{Kind: ast.TWait, X: ast.N(n + "b")})
		}
	}
	// the parameters are used up in a random order
	for i := len(pre) - 1; i > 0; i-- {
		j := d.Pick(i+1, "useorder")
		plain := func(t *ast.Term) bool {
			return t.Kind == ast.TWait && !strings.HasSuffix(t.X.S, "a") && !strings.HasSuffix(t.X.S, "b") && !strings.HasSuffix(t.X.S, "s") && !strings.HasSuffix(t.X.S, "t")
		}
		if plain(pre[i]) && plain(pre[j]) {
			pre[i], pre[j] = pre[j], pre[i]
		}
	}
	for i := len(pre) - 1; i >= 0; i-- {
		pre[i].K = body
		body = pre[i]
	}
	f.Ty = one(m)
	f.Body = body
	if d.Chance(30, "explicit") {
		f.Explicit = "w"
		for e := f.Body; e != nil; e = e.K {
			if e.Kind == ast.TClose {
				e.X = ast.N("w")
			}
		}
	}
	p.Decls = append(p.Decls, f)
	v, _ := refcheck.Program(p, true)
	if v.Unknown {
		h.S.Count("reference_unknown")
		return nil
	}
	c := &caseC07{Text: p.Text(nil), Mutant: "independence matrix", Reason: v.Reason, Detail: v.Detail, Site: v.Site, Expect: "reject"}
	if v.Accept {
		c.Expect = "accept"
	}
	c.NonTriv = k >= 2
	h.S.Count("independence_matrix->" + c.Expect)
	return c
}

// operandMatrix: one uncalled function that hands a parameter of type A to an axiom which needs an
// A' of the same mode - payload or continuation of a send, continuation of a select, operand of a
// down cast, forwarded channel, argument of a call, body of an annotated cut. A' is A (respelled by
// a fresh draw or verbatim) or another type of that mode: the verdict is the rule's own comparison
// of the found type with the expected one, nothing else.
func operandMatrix(rt *rapid.T, h *harness.H) *caseC07 {
	d := gen.D{T: rt}
	tg := &gen.TyGen{D: d, MaxDepth: 2}
	m := ast.Mode(d.Pick(4, "mode"))
	ann := func(t *ast.Ty) *ast.Ty {
		c := t.Clone()
		if !c.IsShift() {
			c.Ann = m.String()
		}
		return c
	}
	A := tg.Body(m, d.Int(0, 2, "depthA"), false)
	B := A.Clone()
	if d.Likely(60, "different") {
		B = tg.Body(m, d.Int(0, 2, "depthB"), false)
	}
	one := ast.One(m)
	p := &ast.Program{}
	fun := func(name string, ret *ast.Ty, body *ast.Term, params ...ast.Param) {
		p.Decls = append(p.Decls, &ast.Decl{Kind: ast.DFun, Name: name, Ty: ann(ret), Params: params, Body: body})
	}
	pa := func(n string, t *ast.Ty) ast.Param { return ast.Param{Name: n, Ty: ann(t)} }
	shape := d.Pick(9, "axiom")
	switch shape {
	case 0: // payload of a send
		fun("f", ast.Tensor(m, B, one), &ast.Term{Kind: ast.TSend, X: ast.SelfNm, Y: ast.N("a"), Z: ast.N("u")}, pa("a", A), pa("u", one))
	case 1: // continuation of a send
		fun("f", ast.Tensor(m, one, B), &ast.Term{Kind: ast.TSend, X: ast.SelfNm, Y: ast.N("u"), Z: ast.N("a")}, pa("a", A), pa("u", one))
	case 2: // continuation of a select
		fun("f", ast.Plus(m, ast.Br{L: "l", T: B}, ast.Br{L: "r", T: one}), &ast.Term{Kind: ast.TSel, X: ast.SelfNm, Label: "l", Y: ast.N("a")}, pa("a", A))
	case 3: // operand of a down cast (the shift stays at the mode)
		fun("f", ast.Down(m, B), &ast.Term{Kind: ast.TCast, X: ast.SelfNm, Y: ast.N("a")}, pa("a", A))
	case 4: // forwarded channel
		fun("f", B, &ast.Term{Kind: ast.TFwd, X: ast.SelfNm, Y: ast.N("a")}, pa("a", A))
	case 5: // argument of a call
		fun("g", B, &ast.Term{Kind: ast.TFwd, X: ast.SelfNm, Y: ast.N("x")}, pa("x", B))
		fun("f", B, &ast.Term{Kind: ast.TCall, Fn: "g", Args: []ast.Nm{ast.N("a")}}, pa("a", A))
	case 6: // annotation of a cut whose body is a call
		fun("g", A, &ast.Term{Kind: ast.TFwd, X: ast.SelfNm, Y: ast.N("x")}, pa("x", A))
		ret := B
		if d.Bool("retA") {
			ret = A // everything but the annotation agrees with the type g really provides
		}
		fun("f", ret, &ast.Term{Kind: ast.TNew, X: ast.N("y"), Ann: ann(B), Body: &ast.Term{Kind: ast.TCall, Fn: "g", Args: []ast.Nm{ast.N("a")}},
			K: &ast.Term{Kind: ast.TFwd, X: ast.SelfNm, Y: ast.N("y")}}, pa("a", A))
	case 8: // annotation of a call-bodied cut that re-uses the name of its argument: a : B <- new g(a)
		fun("g", A, &ast.Term{Kind: ast.TFwd, X: ast.SelfNm, Y: ast.N("x")}, pa("x", A))
		// (everything else agrees with the type g really provides, so only the annotation can object)
		fun("f", A, &ast.Term{Kind: ast.TNew, X: ast.N("a"), Ann: ann(B), Body: &ast.Term{Kind: ast.TCall, Fn: "g", Args: []ast.Nm{ast.N("a")}},
			K: &ast.Term{Kind: ast.TFwd, X: ast.SelfNm, Y: ast.N("a")}}, pa("a", A))
	default: // a client-side select whose continuation is annotated: x : B <- new a.l<self>
		fun("f", B, &ast.Term{Kind: ast.TNew, X: ast.N("y"), Ann: ann(B), Body: &ast.Term{Kind: ast.TSel, X: ast.N("a"), Label: "l", Y: ast.SelfNm},
			K: &ast.Term{Kind: ast.TFwd, X: ast.SelfNm, Y: ast.N("y")}}, pa("a", ast.With(m, ast.Br{L: "l", T: A})))
	}
	v, _ := refcheck.Program(p, true)
	if v.Unknown {
		h.S.Count("reference_unknown")
		return nil
	}
	c := &caseC07{Text: p.Text(nil), Mutant: fmt.Sprintf("operand matrix (axiom %d)", shape), Reason: v.Reason, Detail: v.Detail, Site: v.Site, Expect: "reject", NonTriv: true}
	if v.Accept {
		c.Expect = "accept"
	}
	h.S.Count(fmt.Sprintf("operand_matrix:%d->%s", shape, c.Expect))
	return c
}

func genImplication(kinds []string, classOf map[string]bool) func(rt *rapid.T, h *harness.H) interface{} {
	return func(rt *rapid.T, h *harness.H) interface{} {
		d := gen.D{T: rt}
		if classOf[refcheck.Independence] && d.Chance(25, "matrix") {
			c := independenceMatrix(rt, h)
			if c == nil {
				return nil
			}
			return c
		}
		if d.Chance(12, "garbage") {
			// arbitrary grammatical programs: interesting only when Grits accepts them
			g := &gen.Syn{D: d, NoAssuming: true, ValidModesOnly: true}
			p := g.Program()
			v, _ := refcheck.Program(p, true)
			if v.Unknown {
				h.S.Count("reference_unknown")
				return nil
			}
			c := &caseC07{Text: p.Text(nil), Mutant: "g-syn", Reason: v.Reason, Detail: v.Detail, Site: v.Site, Expect: "reject"}
			if v.Accept {
				c.Expect = "accept"
			}
			return c
		}
		p, g := genProgram(rt, h)
		if p == nil {
			return nil
		}
		var c *caseC07
		if d.Chance(80, "mutate") {
			c = mutantCase(rt, h, p, kinds)
			if c == nil {
				return nil
			}
			h.S.Count("mutation:" + c.Mutant[:strings.Index(c.Mutant, ":")] + "->" + c.Expect + ":" + c.Reason)
			c.NonTriv = inClass(classOf, c)
		} else {
			c = &caseC07{Text: p.Text(nil), Expect: "accept", Feats: g.Feat, NonTriv: false}
		}
		h.S.Sample(map[string]interface{}{"text": c.Text, "reference": c.Expect, "mutation": c.Mutant, "reason": c.Reason})
		return c
	}
}

func TestC05(t *testing.T) {
	harness.Run(t, harness.Prop{
		ID:  "C05",
		New: func() interface{} { return &caseC07{} },
		Gen: genImplication(substructuralMutations, refcheck.Substructural),
		Check: func(h *harness.H, c interface{}) *harness.Failure {
			return checkImplication(h, c.(*caseC07), refcheck.Substructural, "substructural discipline")
		},
		Size: func(c interface{}) int { return len(c.(*caseC07).Text) },
	})
}

func TestC06(t *testing.T) {
	harness.Run(t, harness.Prop{
		ID:  "C06",
		New: func() interface{} { return &caseC07{} },
		Gen: genImplication(modeMutations, modeClass),
		Check: func(h *harness.H, c interface{}) *harness.Failure {
			return checkImplication(h, c.(*caseC07), modeClass, "mode discipline (independence / shift legality)")
		},
		Size: func(c interface{}) int { return len(c.(*caseC07).Text) },
	})
}
