package props

import (
	"encoding/json"
	"fmt"
	"os"
	"testing"
	"time"

	"verif/internal/conv"
	"verif/internal/harness"
	"verif/internal/pool"
	"verif/internal/refcheck"
	"verif/internal/wire"
)

// TestCalibrateRefcheck (development-time, not a registered check): the reference typechecker
// must agree with the maintainers' own accept/reject corpus (cmd/typechecker_test.go).
func TestCalibrateRefcheck(t *testing.T) {
	if os.Getenv("VERIF_CALIBRATE") == "" {
		t.Skip("set VERIF_CALIBRATE=1")
	}
	b, err := os.ReadFile("../calib/corpus.json")
	if err != nil {
		t.Fatal(err)
	}
	var cases []struct {
		Func string
		Idx  int
		Text string
		Pass bool
	}
	json.Unmarshal(b, &cases)
	h := harness.Open(t, "CALIB")
	agree, unknown, dis := 0, 0, 0
	for _, c := range cases {
		res := h.Call(0, &wire.Req{Op: "parse", Text: c.Text, WantDump: true, DumpTy: true}, 10*time.Second)
		if res.Outcome != pool.OK || !res.Resp.ParseOK {
			fmt.Printf("SKIP %s#%d: parse %v %s\n", c.Func, c.Idx, res.Outcome, res.Resp.ParseErr)
			continue
		}
		prog, err := conv.Program(res.Resp.Dump)
		if err != nil {
			fmt.Printf("SKIP %s#%d: %v\n", c.Func, c.Idx, err)
			continue
		}
		v, _ := refcheck.Program(prog, false)
		gr := h.Call(0, &wire.Req{Op: "check", Text: c.Text, SettleMs: 1000}, 10*time.Second)
		gritsOK := gr.Outcome == pool.OK && gr.Resp.CheckOK
		switch {
		case v.Unknown:
			unknown++
			fmt.Printf("UNKNOWN %s#%d (expected pass=%v): %s\n", c.Func, c.Idx, c.Pass, v.Detail)
		case v.Accept == c.Pass:
			agree++
		default:
			dis++
			fmt.Printf("DISAGREE %s#%d: maintainers pass=%v grits=%v refcheck=%s\n%s\n---\n", c.Func, c.Idx, c.Pass, gritsOK, v, c.Text)
		}
	}
	fmt.Printf("calibration: %d agree, %d unknown, %d disagree of %d\n", agree, unknown, dis, len(cases))
}

// TestCalibrateExamples: refcheck vs Grits on the shipped examples (development-time).
func TestCalibrateExamples(t *testing.T) {
	if os.Getenv("VERIF_CALIBRATE") == "" {
		t.Skip("set VERIF_CALIBRATE=1")
	}
	h := harness.Open(t, "CALIB")
	var files []string
	for _, dir := range []string{"/repo/examples", "/repo/examples/others", "/repo/benchmarks/compare"} {
		es, _ := os.ReadDir(dir)
		for _, e := range es {
			if !e.IsDir() && len(e.Name()) > 6 && e.Name()[len(e.Name())-6:] == ".grits" {
				files = append(files, dir+"/"+e.Name())
			}
		}
	}
	for _, f := range files {
		b, _ := os.ReadFile(f)
		res := h.Call(0, &wire.Req{Op: "parse", Text: string(b), WantDump: true, DumpTy: true}, 10*time.Second)
		if res.Outcome != pool.OK || !res.Resp.ParseOK {
			fmt.Printf("%-50s parse: %v %s\n", f, res.Outcome, res.Resp.ParseErr)
			continue
		}
		prog, err := conv.Program(res.Resp.Dump)
		if err != nil {
			fmt.Printf("%-50s conv: %v\n", f, err)
			continue
		}
		v, _ := refcheck.Program(prog, false)
		gr := h.Call(0, &wire.Req{Op: "check", Text: string(b), SettleMs: 1000}, 20*time.Second)
		g := "?"
		if gr.Outcome == pool.OK {
			g = verdictStr(gr.Resp)
		}
		mark := ""
		if gr.Outcome == pool.OK && !v.Unknown && v.Accept != gr.Resp.CheckOK {
			mark = "  <<<<<< DISAGREE"
		}
		fmt.Printf("%-50s grits=%.60s refcheck=%s%s\n", f, g, v, mark)
	}
}
