package props

import (
	"fmt"
	"sort"
	"strings"
	"testing"

	"pgregory.net/rapid"

	"verif/internal/ast"
	"verif/internal/gen"
	"verif/internal/harness"
	"verif/internal/pool"
	"verif/internal/refcheck"
	"verif/internal/refsem"
	"verif/internal/reftypes"
)

// Shared by C01-C04: a generated program together with what the references say about it.
type caseRun struct {
	Text        string
	Origin      string   // "g-prog" | "mutant: ..." | "rendering: ..."
	RefAccepts  bool     // the reference typechecker accepts (C02-C04 only use such programs)
	Contraction bool     // uses split or a multi-name provider (syntactically)
	Labels      []string // reference multiset of printed labels (sorted)
	Events      []refsem.Event
	Unreceived  int
	Comm        int
	Spawns      int
	Hops        int
	Cross       int
	Blocked     int
	Forwards    int
	Drops       int
	Copies      int
	Untyped     string   // C13: the same program with some cuts spelled out inline (runs unchecked only)
	RefProblem  string   // reference semantics got stuck / ran out of budget / error
	Feats       []string
	Seed        uint64
	NegUnconsumed bool   // a negative-typed top-level provider is left unconsumed
}

func hasContraction(p *ast.Program) bool {
	c := false
	for _, d := range p.Decls {
		if d.Kind == ast.DPrc && len(d.Providers) > 1 {
			c = true
		}
		if d.Body != nil {
			d.Body.Walk(func(t *ast.Term) {
				if t.Kind == ast.TSplit {
					c = true
				}
			})
		}
	}
	return c
}

// negUnconsumed: is there a top-level provider of negative type that no declaration uses?
func negUnconsumed(p *ast.Program) bool {
	env, ill := reftypes.Resolve(p.Types())
	if ill != nil {
		return true
	}
	used := map[string]bool{}
	for _, d := range p.Decls {
		if d.Kind == ast.DPrc {
			for _, n := range refcheck.FreeNames(d.Body) {
				used[n] = true
			}
		}
	}
	for _, d := range p.Decls {
		if d.Kind != ast.DPrc || d.Ty == nil {
			continue
		}
		t, ill := env.ResolveAnn(d.Ty, "")
		if ill != nil {
			return true
		}
		if env.Unfold(t).Positive() {
			continue
		}
		for _, n := range d.Providers {
			if !used[n] {
				return true
			}
		}
	}
	for _, d := range p.Decls {
		if d.Kind == ast.DExec {
			if f := p.Fun(d.Name); f != nil && f.Ty != nil {
				if t, ill := env.ResolveAnn(f.Ty, ""); ill != nil || !env.Unfold(t).Positive() {
					return true
				}
			}
		}
	}
	return false
}

func describeRun(p *ast.Program, origin string, feats map[string]int, refAccepts bool, seed uint64) *caseRun {
	c := &caseRun{Text: p.Text(nil), Origin: origin, RefAccepts: refAccepts, Contraction: hasContraction(p), Seed: seed, NegUnconsumed: negUnconsumed(p)}
	for k := range feats {
		c.Feats = append(c.Feats, k)
	}
	sort.Strings(c.Feats)
	if refAccepts {
		r := refsem.Run(p, 50000)
		c.Labels, c.Events, c.Unreceived, c.Comm, c.Spawns, c.Hops, c.Cross, c.Blocked = r.Labels, r.Events, r.Unreceived, r.Comm, r.Spawns, r.Hops, r.CrossEdges, r.Blocked
		c.Forwards, c.Drops, c.Copies = r.Forwards, r.Drops, r.Copies
		switch {
		case r.Error != "":
			c.RefProblem = "error: " + r.Error
		case r.OutOfBudget:
			c.RefProblem = "out of budget"
		case r.Stuck > 0:
			c.RefProblem = "stuck: " + strings.Join(r.StuckDesc, "; ")
		}
	}
	return c
}

// genRunCase draws a runnable program. withMutants: also single-edit mutants (the caller decides
// what to do with those the reference rejects).
func genRunCase(rt *rapid.T, h *harness.H, mutantPct int) *caseRun {
	c, _, _ := genRunCaseP(rt, h, mutantPct)
	return c
}

// genRunCaseP also returns the program (nil for a mutant) and its generator.
func genRunCaseP(rt *rapid.T, h *harness.H, mutantPct int) (*caseRun, *ast.Program, *gen.ProgGen) {
	p, g := genProgramOpt(rt, h, true)
	if p == nil {
		return nil, nil, g
	}
	d := gen.D{T: rt}
	seed := rapid.Uint64Range(1, 1<<40).Draw(rt, "cfgseed")
	if mutantPct > 0 && d.Chance(mutantPct, "mutant") {
		kind := d.Of(gen.MutationKinds, "mutation")
		q, what, ok := d.Mutate(p, kind)
		if !ok {
			return nil, nil, g
		}
		v, _ := refcheck.Program(q, true)
		if v.Unknown {
			h.S.Count("reference_unknown")
			return nil, nil, g
		}
		return describeRun(q, "mutant: "+kind+": "+what, g.Feat, v.Accept, seed), nil, g
	}
	origin := "g-prog"
	if d.Chance(30, "coincidences") {
		// the coincidence-maximising renderer of C14: bound names, function, type and label names are
		// re-spelled onto identifiers that already occur elsewhere, each step kept only if the
		// reference verdict and the reference outcome are unchanged (lexically harmless by construction)
		if r := refsem.Run(p, 50000); r.Error == "" && !r.OutOfBudget && r.Stuck == 0 {
			q, v := render(d, p, true, r.Labels, "reuse", 14)
			if v.Steps > 0 {
				p, origin = q, fmt.Sprintf("g-prog, %d names re-spelled onto names used elsewhere", v.Steps)
				h.S.Count("renamed_for_coincidences")
			}
		}
	}
	c := describeRun(p, origin, g.Feat, true, seed)
	for _, f := range c.Feats {
		h.S.Count("feat:" + f)
	}
	if c.RefProblem != "" {
		h.S.Count("reference_semantics_problem:" + strings.SplitN(c.RefProblem, ":", 2)[0])
	}
	return c, p, g
}

func briefRun(o runOut) string {
	if o.Res.Outcome != pool.OK {
		return fmt.Sprintf("[%s] worker %s: %s", o.Cfg, o.Res.Outcome, harness.Brief(o.Res.Stderr))
	}
	r := o.Resp
	return fmt.Sprintf("[%s] quiescent=%v timeout=%v prints=[%s] parked: recv=%d send=%d other=%d", o.Cfg, r.Quiescent, r.Timeout, o.multiset(), r.NRecv, r.NSend, r.NOther)
}

// ---------- C01 ----------

func checkC01(h *harness.H, ci interface{}) *harness.Failure {
	c := ci.(*caseRun)
	r, f := checkTotal(h, c.Text)
	if f != nil {
		if !f.Inconclusive {
			h.S.Count("checker_problem_left_to_C09")
		}
		return &harness.Failure{Inconclusive: true}
	}
	if !r.ParseOK || !r.CheckOK {
		h.S.Eval("")
		h.S.Count("not_accepted")
		return nil
	}
	key := ""
	if c.Comm >= 3 && len(c.Feats) >= 3 {
		key = c.Text
	}
	h.S.Eval(key)
	if !c.RefAccepts {
		h.S.Count("accepted_by_grits_only")
	}
	modes := []int{0, 1, 2}
	if c.Contraction {
		// N6 (non-polarized mode with contraction crashed intermittently) was a known finding for most
		// of the build: while it was listed those runs were excluded by construction and counted. It
		// is repaired now (fix aa68d63), so IsKnown is false and all three modes run.
		if h.IsKnown("N6") {
			modes = []int{0, 1}
			h.S.Count("excluded_np_runs_with_contraction(N6)")
		}
	}
	n := 2
	if h.Thorough() {
		n = 6
	}
	outs := runAll(h, c.Text, cfgMatrix(c.Seed, modes, n), 2, 10000)
	for _, o := range outs {
		h.S.Count("runs:" + modeName[o.Cfg.Mode])
		switch o.Res.Outcome {
		case pool.OK:
			if o.Resp.InternalE != "" {
				return harness.Failf("worker problem: %s", o.Resp.InternalE)
			}
			if strings.Contains(o.Resp.Stdout, "Error in") || strings.Contains(o.Resp.Stdout, "panic") {
				return harness.Failf("interpreter reported an error while running an accepted program [%s]: %s\n%s", o.Cfg, o.Resp.Stdout, c.Text)
			}
			if o.Resp.Timeout {
				h.S.Count("no_quiescence_within_10s")
			}
		case pool.Crash:
			// re-run alone: schedule-dependent failures may not reproduce, but the captured panic is evidence enough
			f := harness.Failf("an accepted program made the interpreter panic [%s] (%s)\nstderr: %s\n%s", o.Cfg, c.Origin, harness.Brief(o.Res.Stderr), c.Text)
			if o.Cfg.Mode == 2 && c.Contraction {
				f.Known = "N6"
			}
			return f
		case pool.Hang:
			h.S.Count("worker_hang")
			return &harness.Failure{Inconclusive: true, Msg: "worker hang"}
		default:
			h.S.InfraProblem(o.Res.Stderr)
			return &harness.Failure{Inconclusive: true}
		}
	}
	return nil
}

func TestC01(t *testing.T) {
	harness.Run(t, harness.Prop{
		ID:  "C01",
		New: func() interface{} { return &caseRun{} },
		Gen: func(rt *rapid.T, h *harness.H) interface{} {
			c := genRunCase(rt, h, 45)
			if c == nil {
				return nil
			}
			h.S.Sample(map[string]interface{}{"text": c.Text, "origin": c.Origin})
			return c
		},
		Check: checkC01,
		Size:  func(c interface{}) int { return len(c.(*caseRun).Text) },
	})
}
