package props

import (
	"fmt"
	"strings"
	"testing"
	"time"

	"pgregory.net/rapid"

	"verif/internal/ast"
	"verif/internal/gen"
	"verif/internal/harness"
	"verif/internal/pool"
	"verif/internal/reftypes"
	"verif/internal/wire"
)

// C10 — only well-formed, contractive, consistently-moded types are admitted (both directions),
// and Unfold of every accepted name reaches a structural type.

type caseC10 struct {
	Text     string
	WellForm bool
	Reason   string // reference's reason when ill-formed
	Detail   string
	Class    string // injected defect class
	What     string
	Names    []string          // definition names (accepted case: unfold them)
	Heads    map[string]string // expected head constructor after unfolding
	Depth    int
	NDefs    int
}

func typesProgram(decls []*ast.Decl, users bool) string {
	var sb strings.Builder
	for _, d := range decls {
		sb.WriteString(d.Text(nil))
		sb.WriteString("\n")
	}
	if users {
		seen := map[string]bool{}
		for i, d := range decls {
			if seen[d.Name] {
				continue
			}
			seen[d.Name] = true
			fmt.Fprintf(&sb, "let u%d(x : %s) : %s = fwd self x\n", i, d.Name, d.Name)
		}
	}
	return sb.String()
}

func checkC10(h *harness.H, ci interface{}) *harness.Failure {
	c := ci.(*caseC10)
	key := ""
	if c.NDefs >= 2 && (c.WellForm || c.Depth > 0 || c.Reason == reftypes.DupDef || c.Reason == reftypes.NonContract) {
		key = c.Text
	}
	h.S.Eval(key)
	h.S.Count("class:" + c.Class)
	if c.WellForm {
		h.S.Count("expect:well-formed")
	} else {
		h.S.Count("expect:" + c.Reason)
	}
	req := &wire.Req{Op: "check", Text: c.Text, SettleMs: 3000}
	res := h.Call(0, req, 20*time.Second)
	if res.Outcome != pool.OK {
		r2 := h.Alone(req, 60*time.Second)
		if r2.Outcome == pool.OK {
			return &harness.Failure{Inconclusive: true, Msg: "crash/hang not reproduced alone"}
		}
		if r2.Outcome == pool.Infra {
			h.S.InfraProblem(r2.Stderr)
			return &harness.Failure{Inconclusive: true}
		}
		return harness.Failf("checking a set of type definitions made the checker %s\n%s\nstderr: %s", r2.Outcome, c.Text, harness.Brief(r2.Stderr))
	}
	r := res.Resp
	if !r.ParseOK {
		return harness.Failf("generated type definitions do not parse (generator or parser problem): %s\n%s", r.ParseErr, c.Text)
	}
	if c.WellForm && !r.CheckOK {
		return harness.Failf("well-formed type definitions were rejected: %s\n%s", r.CheckErr, c.Text)
	}
	if !c.WellForm && r.CheckOK {
		f := harness.Failf("ill-formed type definitions were accepted (%s: %s; injected: %s)\n%s", c.Reason, c.Detail, c.What, c.Text)
		if c.Reason == reftypes.HeadVsShift {
			f.Known = "F15"
		}
		return f
	}
	if !c.WellForm {
		return nil
	}
	// accepted: unfolding terminates with a structural type for every name
	ur := h.Call(0, &wire.Req{Op: "unfold", Text: c.Text, Names: c.Names}, 20*time.Second)
	if ur.Outcome != pool.OK {
		r2 := h.Alone(&wire.Req{Op: "unfold", Text: c.Text, Names: c.Names}, 60*time.Second)
		if r2.Outcome == pool.OK || r2.Outcome == pool.Infra {
			return &harness.Failure{Inconclusive: true}
		}
		return harness.Failf("Unfold on accepted definitions made the host %s\n%s\nstderr: %s", r2.Outcome, c.Text, harness.Brief(r2.Stderr))
	}
	if ur.Resp.InternalE != "" || len(ur.Resp.Tys) != len(c.Names) {
		return harness.Failf("unfold op failed: %s %s", ur.Resp.InternalE, ur.Resp.CheckErr)
	}
	for i, n := range c.Names {
		got := ur.Resp.Tys[i]
		if got.K == "name" || got.K == "nil" {
			return harness.Failf("Unfold(%s) did not reach a structural type (got %s %s)\n%s", n, got.K, got.Name, c.Text)
		}
		if want := c.Heads[n]; want != got.K {
			return harness.Failf("Unfold(%s) has head %s, the definitions say %s\n%s", n, got.K, want, c.Text)
		}
	}
	return nil
}

func genC10(rt *rapid.T, h *harness.H) interface{} {
	d := gen.D{T: rt}
	g := &gen.TyGen{D: d, MaxDepth: 3}
	decls := g.Env(d.Int(1, 5, "ndefs"), "T")
	class := d.Of(gen.DefectClasses, "class")
	what := "none"
	if class != "none" {
		decls, what = g.Inject(decls, class)
	}
	c := &caseC10{Class: class, What: what, NDefs: len(decls), Heads: map[string]string{}}
	env, ill := reftypes.Resolve(decls)
	users := d.Chance(60, "users")
	// an inline annotation type in a trivial user, possibly itself defective
	extra := ""
	if ill == nil && d.Chance(35, "inline") {
		m := g.GenMode()
		t := g.AnnType(m, 2, env)
		t0 := t.Clone() // the type as drawn, before any defect
		if d.Chance(30, "inline-defect") {
			tmp := []*ast.Decl{{Kind: ast.DType, Name: "Tmp", Ty: t}}
			cl := d.Of([]string{"undefined", "dup-label", "unknown-mode", "mode-change", "shift-pair"}, "iclass")
			tmp, what = g.Inject(tmp, cl)
			t = tmp[0].Ty
			c.Class = "inline:" + cl
			c.What = what
		}
		if _, ill2 := env.ResolveAnn(t, "signature of v"); ill2 != nil {
			ill = ill2
		} else {
			t0 = t.Clone() // the edit left a well-formed (possibly different) type: use it everywhere
		}
		switch d.Pick(3, "inlinepos") {
		case 0:
			extra = fmt.Sprintf("let v(x : %s) : %s = fwd self x\n", t.Text(), t.Text())
		case 1: // annotation of a cut whose body is a call; everything around it has the type as drawn
			extra = fmt.Sprintf("let mk(x : %s) : %s = fwd self x\nlet v(x : %s) : %s =\n    y : %s <- new mk(x);\n    fwd self y\n", t0.Text(), t0.Text(), t0.Text(), t0.Text(), t.Text())
		default: // type of a top-level process that only forwards an assumed name of the type as drawn
			extra = fmt.Sprintf("assuming zz : %s\nprc[pv] : %s = fwd self zz\n", t0.Text(), t.Text())
		}
	}
	c.Text = typesProgram(decls, users) + extra
	if ill != nil {
		c.Reason, c.Detail, c.Depth = ill.Reason, ill.Error(), ill.Depth
	} else {
		c.WellForm = true
		for _, n := range env.Order {
			c.Names = append(c.Names, n)
			c.Heads[n] = ast.KindName[env.Unfold(env.Defs[n].Ty).K]
		}
	}
	h.S.Sample(map[string]interface{}{"text": c.Text, "well_formed": c.WellForm, "reason": c.Reason, "class": c.Class})
	return c
}

func TestC10(t *testing.T) {
	harness.Run(t, harness.Prop{
		ID:    "C10",
		New:   func() interface{} { return &caseC10{} },
		Gen:   genC10,
		Check: checkC10,
		Size:  func(c interface{}) int { return len(c.(*caseC10).Text) },
	})
}
