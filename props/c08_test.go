package props

import (
	"fmt"
	"strings"
	"testing"
	"time"

	"pgregory.net/rapid"

	"verif/internal/ast"
	"verif/internal/gen"
	"verif/internal/harness"
	"verif/internal/pool"
	"verif/internal/reftypes"
	"verif/internal/wire"
)

// C08 — type equality is equi-recursive equality and always terminates.

type caseC08 struct {
	Text    string
	Names   []string
	Equal   [][]bool // reference: Equal[i][j]
	Cyclic  []bool
	Rewrite []string
}

func checkC08(h *harness.H, ci interface{}) *harness.Failure {
	c := ci.(*caseC08)
	n := len(c.Names)
	var pairs [][2]string
	for i := 0; i < n; i++ {
		for j := 0; j < n; j++ {
			pairs = append(pairs, [2]string{c.Names[i], c.Names[j]})
		}
	}
	nontriv := false
	for i := 0; i < n; i++ {
		for j := 0; j < n; j++ {
			if i != j && (c.Cyclic[i] || c.Cyclic[j]) {
				nontriv = true
			}
		}
	}
	key := ""
	if nontriv {
		key = c.Text
	}
	h.S.Eval(key)
	req := &wire.Req{Op: "eqtype", Text: c.Text, Pairs: pairs, Unfold: true}
	res := h.Call(0, req, 30*time.Second)
	if res.Outcome == pool.Infra {
		h.S.InfraProblem(res.Stderr)
		return &harness.Failure{Inconclusive: true}
	}
	if res.Outcome != pool.OK {
		r2 := h.Alone(req, 90*time.Second)
		if r2.Outcome == pool.OK || r2.Outcome == pool.Infra {
			return &harness.Failure{Inconclusive: true, Msg: "not reproduced alone"}
		}
		what := "did not terminate within 90 s"
		if r2.Outcome == pool.Crash {
			what = "killed the host process"
		}
		return harness.Failf("EqualType on well-formed contractive definitions %s\n%s\nstderr: %s", what, c.Text, harness.Brief(r2.Stderr))
	}
	r := res.Resp
	if !r.ParseOK || !r.CheckOK {
		return harness.Failf("well-formed definitions were not accepted, cannot compare (parse: %s, check: %s)\n%s", r.ParseErr, r.CheckErr, c.Text)
	}
	if r.InternalE != "" || len(r.Bools) != n*n || len(r.Bools2) != n*n || len(r.Bools3) != n*n {
		return harness.Failf("eqtype op failed: %s", r.InternalE)
	}
	at := func(b []bool, i, j int) bool { return b[i*n+j] }
	for i := 0; i < n; i++ {
		for j := 0; j < n; j++ {
			want := c.Equal[i][j]
			h.S.Count("pairs")
			if want {
				h.S.Count("pairs_equal")
			}
			if i != j && (c.Cyclic[i] || c.Cyclic[j]) {
				h.S.Count("pairs_recursive")
			}
			for k, b := range [][]bool{r.Bools, r.Bools2, r.Bools3} {
				if got := at(b, i, j); got != want {
					form := []string{"EqualType(%s, %s)", "EqualType(Unfold(%s), Unfold(%s))", "EqualType(%s, Unfold(%s))"}[k]
					return harness.Failf(form+" = %v but the infinite unfoldings are %s\nrewrites: %s\n%s", c.Names[i], c.Names[j], got,
						map[bool]string{true: "equal", false: "different"}[want], strings.Join(c.Rewrite, "; "), c.Text)
				}
			}
		}
	}
	// algebraic laws on the implementation's own answers
	for i := 0; i < n; i++ {
		if !at(r.Bools, i, i) {
			return harness.Failf("EqualType is not reflexive on %s\n%s", c.Names[i], c.Text)
		}
		for j := 0; j < n; j++ {
			if at(r.Bools, i, j) != at(r.Bools, j, i) {
				return harness.Failf("EqualType is not symmetric on %s, %s\n%s", c.Names[i], c.Names[j], c.Text)
			}
			for k := 0; k < n; k++ {
				if at(r.Bools, i, j) && at(r.Bools, j, k) && !at(r.Bools, i, k) {
					return harness.Failf("EqualType is not transitive on %s, %s, %s\n%s", c.Names[i], c.Names[j], c.Names[k], c.Text)
				}
			}
		}
	}
	return nil
}

func genC08(rt *rapid.T, h *harness.H) interface{} {
	d := gen.D{T: rt}
	g := &gen.TyGen{D: d, MaxDepth: 3, NoShifts: d.Chance(30, "noshifts")}
	decls, log := g.EqEnv()
	env, ill := reftypes.Resolve(decls)
	if ill != nil {
		h.S.Count("generator_ill_formed:" + ill.Reason)
		return nil
	}
	c := &caseC08{Text: typesProgram(decls, false), Rewrite: log}
	for _, nme := range env.Order {
		if (strings.HasPrefix(nme, "Dg") || strings.HasPrefix(nme, "Dh")) && nme[2:] != "0" && nme[2:] != "1" {
			continue // of a dag family only the two top levels are compared pairwise (the depth below them is what matters)
		}
		c.Names = append(c.Names, nme)
		c.Cyclic = append(c.Cyclic, env.Cyclic(env.Defs[nme].Ty))
	}
	for _, a := range c.Names {
		var row []bool
		for _, b := range c.Names {
			row = append(row, env.Equal(ast.NameTy(env.Defs[a].Mode, a), ast.NameTy(env.Defs[b].Mode, b)))
		}
		c.Equal = append(c.Equal, row)
	}
	h.S.Sample(map[string]interface{}{"text": c.Text, "rewrites": log, "equal_matrix": fmt.Sprint(c.Equal)})
	return c
}

func TestC08(t *testing.T) {
	harness.Run(t, harness.Prop{
		ID:    "C08",
		New:   func() interface{} { return &caseC08{} },
		Gen:   genC08,
		Check: checkC08,
		Size:  func(c interface{}) int { return len(c.(*caseC08).Text) },
	})
}
