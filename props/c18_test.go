package props

import (
	"bytes"
	"context"
	"fmt"
	"os"
	"os/exec"
	"path/filepath"
	"regexp"
	"strings"
	"testing"
	"time"

	"pgregory.net/rapid"

	"verif/internal/gen"
	"verif/internal/harness"
	"verif/internal/refcheck"
)

// C18 — CLI gatekeeping: nothing runs unless parsing and typechecking succeed.

type caseC18 struct {
	Class    string // accept | type-error | syntax-error | empty | missing
	Text     string
	Flags    []string
	ParseOK  bool     // library verdicts (worker)
	CheckOK  bool
	Labels   []string // expected printed labels when it runs (accept class)
	Contraction bool
	// derived from Flags
	Typecheck bool
	Execute   bool
	Sync      bool
	Async     bool
	Trailing  []string // arguments written after the file name (flags there are positional arguments to Go's flag package)
}

type cliResult struct {
	status   int
	stdout   string
	stderr   string
	timedOut bool
}

func runCLI(h *harness.H, dir string, c *caseC18) cliResult {
	bin := os.Getenv("VERIF_CLI")
	if bin == "" {
		bin = filepath.Join(h.Root, "bin", "grits")
	}
	file := filepath.Join(dir, "prog.grits")
	if c.Class != "missing" {
		os.WriteFile(file, []byte(c.Text), 0644)
	} else {
		os.Remove(file)
	}
	ctx, cancel := context.WithTimeout(context.Background(), 20*time.Second)
	defer cancel()
	cmd := exec.CommandContext(ctx, bin, append(append(append([]string{}, c.Flags...), file), c.Trailing...)...)
	cmd.Dir = dir
	var so, se bytes.Buffer
	cmd.Stdout, cmd.Stderr = &so, &se
	err := cmd.Run()
	r := cliResult{stdout: so.String(), stderr: se.String()}
	if ctx.Err() != nil {
		r.timedOut = true
	}
	if ee, ok := err.(*exec.ExitError); ok {
		r.status = ee.ExitCode()
	} else if err != nil {
		r.status = -1
	}
	return r
}

var ansiRe = regexp.MustCompile("\x1b\\[[0-9;]*m")

func printedLabels(stdout string) []string {
	var out []string
	// at verbosity >= 2 the coloured log lines leave an ANSI reset sequence in front of the next line
	for _, l := range strings.Split(ansiRe.ReplaceAllString(stdout, ""), "\n") {
		if strings.HasPrefix(l, "> ") {
			out = append(out, strings.TrimPrefix(l, "> "))
		}
	}
	return out
}

func checkC18(h *harness.H, ci interface{}) *harness.Failure {
	c := ci.(*caseC18)
	dir, err := os.MkdirTemp("", "c18-")
	if err != nil {
		h.S.InfraProblem(err.Error())
		return &harness.Failure{Inconclusive: true}
	}
	defer os.RemoveAll(dir)
	key := ""
	if c.Text != "" && len(c.Flags) > 0 {
		key = c.Class + "|" + strings.Join(c.Flags, " ")
	}
	h.S.Eval(key)
	h.S.Count("class:" + c.Class)
	r := runCLI(h, dir, c)
	desc := func() string {
		return fmt.Sprintf("grits %s <file:%s>\nexit status %d\nstdout: %s\nstderr: %s\nfile:\n%s", strings.Join(c.Flags, " "), c.Class, r.status, short(r.stdout, 600), short(r.stderr, 800), short(c.Text, 1500))
	}
	if r.timedOut {
		h.S.Count("cli_timeout")
		return &harness.Failure{Inconclusive: true, Msg: "cli timeout"}
	}
	if r.status == -1 {
		h.S.InfraProblem("cannot run bin/grits")
		return &harness.Failure{Inconclusive: true}
	}
	if len(c.Trailing) > 0 {
		// anything after the file name is refused ("found extra arguments") before the file is even
		// read: whatever stands there - `--noexecute` included - nothing may run
		h.S.Count("trailing_arguments")
		if r.status == 0 {
			return harness.Failf("arguments after the file name (%s), yet the command exits with status 0\n%s", strings.Join(c.Trailing, " "), desc())
		}
		if labels := printedLabels(r.stdout); len(labels) > 0 {
			return harness.Failf("arguments after the file name (%s), yet program output was produced\n%s", strings.Join(c.Trailing, " "), desc())
		}
		return nil
	}
	shouldPass := c.Class != "missing" && c.ParseOK && (!c.Typecheck || c.CheckOK)
	willRun := shouldPass && c.Execute && (c.Sync || c.Async)
	// the cell where an unchecked program is executed is outside the gatekeeping statement
	uncheckedRun := c.ParseOK && !c.Typecheck && c.Execute && (c.Sync || c.Async)
	labels := printedLabels(r.stdout)
	if !c.Execute && len(labels) > 0 {
		return harness.Failf("--noexecute, yet the program produced output\n%s", desc())
	}
	if uncheckedRun {
		h.S.Count("excluded:unchecked_program_executed")
		return nil
	}
	if strings.Contains(r.stderr, "panic:") || strings.Contains(r.stderr, "goroutine ") && strings.Contains(r.stderr, "[running]") || strings.Contains(r.stderr, "fatal error:") {
		return harness.Failf("the command died with a Go panic trace\n%s", desc())
	}
	if shouldPass && r.status != 0 {
		return harness.Failf("parsing and typechecking succeed (library verdict), but the command exits with status %d\n%s", r.status, desc())
	}
	if !shouldPass && r.status == 0 {
		return harness.Failf("the file has a %s, but the command exits with status 0\n%s", c.Class, desc())
	}
	if r.status != 0 {
		if len(labels) > 0 {
			return harness.Failf("non-zero exit status, yet program output was produced\n%s", desc())
		}
		n := 0
		for _, l := range strings.Split(r.stderr, "\n") {
			if strings.TrimSpace(l) != "" {
				n++
			}
		}
		if n != 1 {
			return harness.Failf("expected exactly one diagnostic line on stderr, found %d\n%s", n, desc())
		}
		return nil
	}
	if !willRun {
		if len(labels) > 0 {
			return harness.Failf("nothing should run with these flags, yet the program produced output\n%s", desc())
		}
		return nil
	}
	// executed: nothing invented
	want := map[string]int{}
	for _, l := range c.Labels {
		want[l]++
	}
	for _, l := range labels {
		want[l]--
		if want[l] < 0 {
			return harness.Failf("the program printed %q more often than its semantics allows (expected multiset [%s])\n%s", l, strings.Join(c.Labels, " "), desc())
		}
	}
	if len(labels) != len(c.Labels) {
		// The command ends a run when no process has moved for 50 ms (HeartbeatReceiver); on a loaded
		// machine that cuts runs short at arbitrary points. Retry; every attempt is still checked for
		// invented output. A run that stays short is no verdict (C18 does not promise completion;
		// lost output is C04's business, decided there with exact quiescence).
		for attempt := 2; attempt <= 5; attempt++ {
			r2 := runCLI(h, dir, c)
			l2 := printedLabels(r2.stdout)
			left := map[string]int{}
			for _, l := range c.Labels {
				left[l]++
			}
			for _, l := range l2 {
				left[l]--
				if left[l] < 0 {
					return harness.Failf("the program printed %q more often than its semantics allows (expected multiset [%s]; attempt %d)\n%s", l, strings.Join(c.Labels, " "), attempt, desc())
				}
			}
			if r2.status != 0 {
				return harness.Failf("parsing and typechecking succeed (library verdict), but the command exits with status %d on attempt %d\n%s", r2.status, attempt, desc())
			}
			if len(l2) == len(c.Labels) {
				h.S.Count("short_run_recovered_on_retry")
				return nil
			}
		}
		h.S.Count("run_cut_short_by_heartbeat_timer_in_5_attempts")
		return &harness.Failure{Inconclusive: true}
	}
	return nil
}

var flagSets = [][]string{
	{}, {"--typecheck"}, {"--notypecheck"}, {"--typecheck", "--notypecheck"}, {"-notypecheck"}, {"--typecheck=false"}, {"-typecheck=true"},
	{"--notypecheck=false"},
}
var execSets = [][]string{{}, {"--execute"}, {"--noexecute"}, {"-noexecute"}, {"--execute=false"}, {"--execute", "--noexecute"}, {"--noexecute=false"}}
var modeSets = [][]string{{}, {"--async"}, {"--sync"}, {"-sync"}, {"--async=false"}, {"--sync", "--async"}, {"--sync=false"}}
var verbSets = [][]string{{}, {"--verbosity", "0"}, {"--verbosity", "1"}, {"--verbosity=2"}, {"-verbosity", "3"}, {"--verbosity", "4"}}

func boolFlag(flags []string, name string, def bool) bool {
	v := def
	for _, f := range flags {
		f = strings.TrimLeft(f, "-")
		if f == name || f == name+"=true" {
			v = true
		}
		if f == name+"=false" {
			v = false
		}
	}
	return v
}

func genC18(rt *rapid.T, h *harness.H) interface{} {
	d := gen.D{T: rt}
	c := &caseC18{}
	switch d.Pick(8, "class") {
	case 0:
		c.Class = "empty"
		c.Text = d.Of([]string{"", "\n", "   ", "// only a comment\n", "/* c */"}, "empty")
	case 1:
		c.Class = "missing"
	case 2:
		c.Class = "syntax-error"
		if d.Bool("byconstruction") {
			// an accepted program with one piece of certainly non-grammatical material between two
			// tokens: a syntax error whatever the library parser says about it
			cr := genRunCase(rt, h, 0)
			if cr == nil {
				return nil
			}
			toks := gen.Tokens(cr.Text)
			pos := d.Int(0, len(toks), "pos")
			if d.Likely(60, "atboundary") {
				// prefer declaration boundaries (and the end): there a silently ignored remainder still
				// leaves a complete program behind
				var bs []int
				for i, tk := range toks {
					if i > 0 && (tk == "prc" || tk == "let" || tk == "type" || tk == "exec") {
						bs = append(bs, i)
					}
				}
				bs = append(bs, len(toks))
				pos = bs[d.Pick(len(bs), "boundary")]
			}
			ins := d.Of(gen.IllegalMaterial, "illegal")
			if d.Likely(30, "lonesymbol") {
				ins = d.Of([]string{"/", "\\", "@", "\x00"}, "symbol")
			}
			c.Text = strings.Join(toks[:pos], " ") + " " + ins + " " + strings.Join(toks[pos:], " ")
			c.Class = "syntax-error-by-construction"
			c.Labels = cr.Labels
			break
		}
		base := func() string { return (&gen.Syn{D: d}).Program().Text(&astStyle) }
		c.Text, _ = d.Text(base)
		if len(c.Text) > 20000 {
			c.Text = c.Text[:20000]
		}
	case 3, 4:
		c.Class = "type-error"
		p, _ := genProgramOpt(rt, h, true)
		if p == nil {
			return nil
		}
		q, _, ok := d.Mutate(p, d.Of(gen.MutationKinds, "mutation"))
		if !ok {
			return nil
		}
		v, _ := refcheck.Program(q, true)
		if v.Unknown || v.Accept {
			return nil
		}
		c.Text = q.Text(nil)
	default:
		c.Class = "accept"
		cr := genRunCase(rt, h, 0)
		if cr == nil || cr.RefProblem != "" {
			return nil
		}
		c.Text, c.Labels, c.Contraction = cr.Text, cr.Labels, cr.Contraction
	}
	c.Flags = append(c.Flags, flagSets[d.Pick(len(flagSets), "tc")]...)
	c.Flags = append(c.Flags, execSets[d.Pick(len(execSets), "ex")]...)
	if d.Chance(30, "moreflags") {
		// both spellings of a switch, each in any form, in any order (the last occurrence of one flag
		// wins; the two flags of a switch are combined as documented: run iff execute and not noexecute)
		pool := []string{"--execute", "--execute=false", "--execute=true", "--noexecute", "--noexecute=false", "--noexecute=true", "-noexecute",
			"--typecheck", "--typecheck=false", "--notypecheck", "--notypecheck=false", "-typecheck=true"}
		for i, n := 0, d.Int(1, 3, "nmore"); i < n; i++ {
			c.Flags = append(c.Flags, d.Of(pool, "moreflag"))
		}
	}
	if d.Chance(10, "trailing") {
		c.Trailing = []string{d.Of([]string{"--noexecute", "--execute=false", "--notypecheck", "other.grits", "x", "--sync"}, "trailingarg")}
	}
	ms := modeSets[d.Pick(len(modeSets), "mode")]
	c.Flags = append(c.Flags, ms...)
	c.Flags = append(c.Flags, verbSets[d.Pick(len(verbSets), "verb")]...)
	c.Typecheck = boolFlag(c.Flags, "typecheck", true) && !boolFlag(c.Flags, "notypecheck", false)
	c.Execute = boolFlag(c.Flags, "execute", true) && !boolFlag(c.Flags, "noexecute", false)
	c.Sync = boolFlag(c.Flags, "sync", false)
	c.Async = boolFlag(c.Flags, "async", true)
	if c.Sync && c.Contraction {
		return nil // --sync is the non-polarized mode, where programs with contraction print another admitted multiset (C03/C04 make no exact claim there)
	}
	if c.Sync {
		c.Async = false // --sync takes precedence in cmd/cli.go
	}
	// library verdicts through the worker
	if c.Class != "missing" {
		r, f := checkTotal(h, c.Text)
		if f != nil || r == nil {
			return nil
		}
		c.ParseOK, c.CheckOK = r.ParseOK, r.ParseOK && r.CheckOK
		switch c.Class {
		case "syntax-error-by-construction":
			c.ParseOK, c.CheckOK = false, false // by construction, not by the library's word
		case "syntax-error", "empty":
			if c.ParseOK {
				return nil
			}
		case "type-error":
			if !c.ParseOK || c.CheckOK {
				return nil
			}
		case "accept":
			if !c.CheckOK {
				return nil
			}
		}
	}
	h.S.Sample(map[string]interface{}{"class": c.Class, "flags": strings.Join(c.Flags, " "), "file": short(c.Text, 400)})
	return c
}

func TestC18(t *testing.T) {
	harness.Run(t, harness.Prop{
		ID:    "C18",
		New:   func() interface{} { return &caseC18{} },
		Gen:   genC18,
		Check: checkC18,
		Size:  func(c interface{}) int { return len(c.(*caseC18).Text) + len(c.(*caseC18).Flags) },
	})
}
