package props

import (
	"encoding/json"
	"fmt"
	"strings"
	"testing"
	"time"

	"pgregory.net/rapid"

	"verif/internal/ast"
	"verif/internal/gen"
	"verif/internal/harness"
	"verif/internal/pool"
	"verif/internal/reftypes"
	"verif/internal/wire"
)

// C15 — printed types are unambiguous: print then parse is the identity (types and terms).

type caseC15 struct {
	Kind  string            // "types" | "term"
	Text  string            // types: definitions; term: `prc[zzroot] : 1 = <term>`
	Anns  map[string]string // types: head annotation to use when re-printing each definition ("" = none)
	Hard  bool              // needs parentheses somewhere / >=3 nested continuations
	Names []string
}

func tyDumpEq(a, b *wire.Ty) bool {
	x, _ := json.Marshal(a)
	y, _ := json.Marshal(b)
	return string(x) == string(y)
}

func checkC15(h *harness.H, ci interface{}) *harness.Failure {
	c := ci.(*caseC15)
	key := ""
	if c.Hard {
		key = c.Text
	}
	h.S.Eval(key)
	h.S.Count("kind:" + c.Kind)
	parse := func(text string) (*wire.Resp, *harness.Failure) {
		res := h.Call(0, &wire.Req{Op: "parse", Text: text, WantDump: true}, 20*time.Second)
		if res.Outcome != pool.OK {
			return nil, &harness.Failure{Inconclusive: true, Msg: "parser " + res.Outcome.String()}
		}
		return res.Resp, nil
	}
	r1, f := parse(c.Text)
	if f != nil {
		return f
	}
	if !r1.ParseOK {
		if c.Kind == "term" {
			h.S.Count("term_rejected_by_parser")
			return nil
		}
		return harness.Failf("generated type definitions do not parse: %s\n%s", r1.ParseErr, c.Text)
	}
	if c.Kind == "types" {
		var sb strings.Builder
		for _, td := range r1.Dump.Types {
			ann := c.Anns[td.Name]
			if ann != "" {
				ann += " "
			}
			fmt.Fprintf(&sb, "type %s = %s%s\n", td.Name, ann, td.Str)
		}
		r2, f := parse(sb.String())
		if f != nil {
			return f
		}
		if !r2.ParseOK {
			return harness.Failf("the printed form of a parsed type does not parse: %s\noriginal:\n%s\nprinted:\n%s", r2.ParseErr, c.Text, sb.String())
		}
		for i, td := range r1.Dump.Types {
			if i >= len(r2.Dump.Types) || !tyDumpEq(td.Type, r2.Dump.Types[i].Type) {
				return harness.Failf("printing and re-parsing type %s gives a different type\noriginal:  type %s = %s\nprinted:   %s\nre-parsed prints as: %s", td.Name, td.Name,
					lineOf(c.Text, td.Name), td.Str, r2.Dump.Types[i].Str)
			}
		}
		// different types never print identically (String with the head mode, and StringWithModality)
		for i, a := range r1.Dump.Types {
			for j, b := range r1.Dump.Types {
				if i < j && !tyDumpEq(a.Type, b.Type) {
					if a.StrMode == b.StrMode {
						return harness.Failf("two different types have the same StringWithModality() %q\n%s", a.StrMode, c.Text)
					}
					if a.Str == b.Str && a.Mode == b.Mode && a.Type.K != "up" && a.Type.K != "down" && sameShiftFree(a.Type, b.Type) {
						return harness.Failf("two different types of mode %s print identically as %q\n  %s\n  %s", a.Mode, a.Str, lineOf(c.Text, a.Name), lineOf(c.Text, b.Name))
					}
				}
			}
		}
		return nil
	}
	// term
	if len(r1.Dump.Procs) != 1 {
		return nil
	}
	body := r1.Dump.Procs[0]
	text2 := "prc[zzroot] : 1 = " + body.BodyStr
	r2, f := parse(text2)
	if f != nil {
		return f
	}
	if !r2.ParseOK {
		return harness.Failf("the printed form of a parsed term does not parse: %s\noriginal: %s\nprinted:  %s", r2.ParseErr, c.Text, body.BodyStr)
	}
	a, _ := json.Marshal(body.Body)
	b, _ := json.Marshal(r2.Dump.Procs[0].Body)
	if string(a) != string(b) {
		return harness.Failf("printing and re-parsing a term gives a different term\noriginal: %s\nprinted:  %s\nre-parsed prints as: %s", c.Text, body.BodyStr, r2.Dump.Procs[0].BodyStr)
	}
	return nil
}

// sameShiftFree: String() omits the modes of shift-free regions below shifts only when they are
// printed in the shift itself, so two types with equal text and equal head mode must be equal.
func sameShiftFree(a, b *wire.Ty) bool { return true }

func lineOf(text, name string) string {
	for _, l := range strings.Split(text, "\n") {
		if strings.HasPrefix(l, "type "+name+" ") {
			return strings.TrimPrefix(l, "type "+name+" = ")
		}
	}
	return "?"
}

func needsParens(t *ast.Ty) bool {
	hard := false
	t.Walk(func(n *ast.Ty) {
		if (n.K == ast.KTensor || n.K == ast.KLolli) && n.L != nil {
			switch n.L.K {
			case ast.KTensor, ast.KLolli, ast.KUp, ast.KDown:
				hard = true
			}
		}
	})
	return hard
}

func termDepth(t *ast.Term) int {
	if t == nil {
		return 0
	}
	d := termDepth(t.K)
	if b := termDepth(t.Body); b > d {
		d = b
	}
	for _, br := range t.Brs {
		if x := termDepth(br.K); x > d {
			d = x
		}
	}
	return d + 1
}

func genC15(rt *rapid.T, h *harness.H) interface{} {
	d := gen.D{T: rt}
	if d.Chance(35, "term") {
		g := &gen.Syn{D: d, NoPol: true, NoCutAnn: true}
		t := g.Term(d.Int(1, 5, "depth"))
		c := &caseC15{Kind: "term", Text: "prc[zzroot] : 1 = " + t.Text(&astStyleOneLine), Hard: termDepth(t) >= 4}
		h.S.Sample(c.Text)
		return c
	}
	g := &gen.TyGen{D: d, MaxDepth: 4}
	var decls []*ast.Decl
	if d.Chance(30, "eqenv") {
		decls, _ = g.EqEnv()
	} else {
		decls = g.Env(d.Int(1, 4, "ndefs"), "T")
	}
	env, ill := reftypes.Resolve(decls)
	if ill != nil {
		h.S.Count("generator_ill_formed")
		return nil
	}
	c := &caseC15{Kind: "types", Anns: map[string]string{}}
	var sb strings.Builder
	for _, dc := range decls {
		// print with the resolved head mode written explicitly (never on a shift)
		t := dc.Ty.Clone()
		t.Ann = ""
		ann := ""
		if !t.IsShift() {
			ann = env.Defs[dc.Name].Mode.String()
			t.Ann = ann
		}
		c.Anns[dc.Name] = ann
		c.Names = append(c.Names, dc.Name)
		if needsParens(dc.Ty) {
			c.Hard = true
		}
		fmt.Fprintf(&sb, "type %s = %s\n", dc.Name, t.Text())
	}
	c.Text = sb.String()
	h.S.Sample(c.Text)
	return c
}

func TestC15(t *testing.T) {
	harness.Run(t, harness.Prop{
		ID:    "C15",
		New:   func() interface{} { return &caseC15{} },
		Gen:   genC15,
		Check: checkC15,
		Size:  func(c interface{}) int { return len(c.(*caseC15).Text) },
	})
}
