package props

import (
	"fmt"
	"strings"
	"testing"

	"pgregory.net/rapid"

	"verif/internal/ast"
	"verif/internal/gen"
	"verif/internal/harness"
	"verif/internal/refcheck"
	"verif/internal/reftypes"
)

// C07 — the typing verdict matches the declarative session type system (both directions).

type caseC07 struct {
	Text    string
	Expect  string // "accept" | "reject"
	Reason  string
	Detail  string
	Site    string
	Mutant  string // "" for an unmutated generated program
	Feats   map[string]int
	NonTriv bool
}

func checkVerdict(h *harness.H, c *caseC07) *harness.Failure {
	r, f := checkTotal(h, c.Text)
	if f != nil {
		return f
	}
	if !r.ParseOK {
		if c.Mutant != "" {
			h.S.Count("mutant_refused_by_parser")
			return nil
		}
		return harness.Failf("generated program does not parse (generator or parser problem): %s\n%s", r.ParseErr, c.Text)
	}
	if c.Expect == "accept" && !r.CheckOK {
		return harness.Failf("a program that is derivable in the reference type system was rejected: %s\n(mutation: %q)\n%s", r.CheckErr, c.Mutant, c.Text)
	}
	if c.Expect == "reject" && r.CheckOK {
		return harness.Failf("a program the reference type system rejects (%s: %s) was accepted\n(mutation: %q)\n%s", c.Reason, c.Detail, c.Mutant, c.Text)
	}
	return nil
}

func checkC07(h *harness.H, ci interface{}) *harness.Failure {
	c := ci.(*caseC07)
	key := ""
	if c.NonTriv {
		key = c.Text
	}
	h.S.Eval(key)
	h.S.Count("expect:" + c.Expect)
	if c.Reason != "" {
		h.S.Count("reason:" + c.Reason)
	}
	for k := range c.Feats {
		h.S.Count("feat:" + k)
	}
	f := checkVerdict(h, c)
	if f != nil && !f.Inconclusive {
		classifyKnown(c, f)
	}
	return f
}

// classifyKnown tags failures that match a listed known finding.
func classifyKnown(c *caseC07, f *harness.Failure) {
	if c.Expect == "reject" && c.Reason == refcheck.Independence && c.Site == "prc" {
		f.Known = "K1"
	}
}

// genProgram draws a G-prog program that the reference accepts (nil on a dead end).
func genProgram(rt *rapid.T, h *harness.H) (*ast.Program, *gen.ProgGen) {
	return genProgramOpt(rt, h, false)
}

// progHook lets one property adjust the program generator (each check runs one property per process).
var progHook func(*gen.ProgGen)

func genProgramOpt(rt *rapid.T, h *harness.H, runtime bool) (*ast.Program, *gen.ProgGen) {
	d := gen.D{T: rt}
	g := gen.NewProgGen(d)
	g.Recursive = true
	if progHook != nil {
		progHook(g)
	}
	if runtime {
		g.PrintPct = 22
	}
	p := g.Program()
	if p == nil {
		h.S.Count("generator_dead_end")
		return nil, g
	}
	v, _ := refcheck.Program(p, true)
	if !v.Accept {
		h.S.Count("generator_not_accepted_by_reference")
		if h.S.Counters["generator_not_accepted_by_reference"] <= 3 {
			h.S.Note("reference rejects a generated program: " + v.String() + "\n" + p.Text(nil))
		}
		return nil, g
	}
	return p, g
}

// mutantCase draws a single-edit mutant of p with a definite reference verdict (nil if none).
func mutantCase(rt *rapid.T, h *harness.H, p *ast.Program, kinds []string) *caseC07 {
	d := gen.D{T: rt}
	kind := d.Of(kinds, "mutation")
	q, what, ok := d.Mutate(p, kind)
	if !ok {
		h.S.Count("mutation_has_no_site")
		return nil
	}
	v, _ := refcheck.Program(q, true)
	if v.Unknown {
		h.S.Count("reference_unknown")
		return nil
	}
	c := &caseC07{Text: q.Text(nil), Mutant: kind + ": " + what, Reason: v.Reason, Detail: v.Detail, Site: v.Site, Expect: "reject"}
	if v.Accept {
		c.Expect = "accept"
	}
	c.NonTriv = v.Reason != refcheck.Unbound && v.Reason != refcheck.UndefFun
	return c
}

// equalityProgram: definitions from the equality generator (recursive types, clones rewritten by
// unrolling / aliasing / permutation, near misses) and functions that relate two of them through a
// forward, a call or a typed cut, so that the verdict hinges on type equality at the typechecker's
// own call sites.
func equalityProgram(rt *rapid.T, h *harness.H) *caseC07 {
	d := gen.D{T: rt}
	g := &gen.TyGen{D: d, MaxDepth: 3, NoShifts: d.Chance(30, "noshifts")}
	decls, log := g.EqEnv()
	env, ill := reftypes.Resolve(decls)
	if ill != nil {
		return nil
	}
	p := &ast.Program{Decls: decls}
	n := d.Int(1, 4, "nfuns")
	names := env.Order
	// definitions that were unrolled into themselves: U = F(F(U)), so the subterm F(U) equals U
	var selfUnrolled []string
	for _, l := range log {
		var x, y string
		if _, err := fmt.Sscanf(l, "unrolled %s in %s", &x, &y); err == nil && x == y {
			if _, ok := env.Defs[x]; ok {
				selfUnrolled = append(selfUnrolled, x)
			}
		}
	}
	for i := 0; i < n; i++ {
		a := names[d.Pick(len(names), "a")]
		b := names[d.Pick(len(names), "b")]
		outOfPhase := false
		if _, dag := env.Defs["Dg0"]; dag && i == 0 && d.Likely(70, "dagroots") {
			// the roots of a dag family: equal (or different only at the 2^n leaves)
			a, b = "Dg0", "Dh0"
		} else if len(selfUnrolled) > 0 && d.Likely(40, "outofphase") {
			a = selfUnrolled[d.Pick(len(selfUnrolled), "unrolled")]
			outOfPhase = true
		}
		if a == "Dg0" && b == "Dh0" {
			// keep the pair
		} else if outOfPhase || d.Likely(50, "related") {
			// the same definition, or the clone it was rewritten into / from
			b = a
			partner := ""
			if strings.HasPrefix(a, "T") {
				partner = "U" + a[1:]
			} else if strings.HasPrefix(a, "U") {
				partner = "T" + a[1:]
			}
			if _, ok := env.Defs[partner]; ok && d.Bool("partner") {
				b = partner
			}
		}
		// either the name or its definition written out (one unfolding): a structural type then meets
		// a name, and the recursion points of the two sides are out of phase
		spell := func(n string) *ast.Ty {
			if !(outOfPhase && n == a) && d.Likely(60, "byname") {
				return ast.NameTy(env.Defs[n].Mode, n)
			}
			t := env.Defs[n].Ty.Clone()
			if outOfPhase && n == a || d.Likely(45, "subterm") {
				// a proper structural subterm that mentions a name: for an unrolled definition
				// U = F(F(U)) the subterm F(U) equals U, one step out of phase
				var subs []*ast.Ty
				t.Walk(func(x *ast.Ty) {
					if x == t || x.K == ast.KName || x.K == ast.KOne {
						return
					}
					has := false
					x.Walk(func(y *ast.Ty) {
						if y.K == ast.KName {
							has = true
						}
					})
					if has {
						subs = append(subs, x)
					}
				})
				if len(subs) > 0 {
					t = subs[d.Pick(len(subs), "which")].Clone()
					if !t.IsShift() {
						t.Ann = t.M.String()
					}
					return t
				}
			}
			if !t.IsShift() {
				t.Ann = env.Defs[n].Mode.String()
			}
			return t
		}
		sa := spell(a)
		var sb *ast.Ty
		if outOfPhase {
			sb = ast.NameTy(env.Defs[b].Mode, b)
		} else {
			sb = spell(b)
		}
		ta := func() *ast.Ty { return sa.Clone() }
		tb := func() *ast.Ty { return sb.Clone() }
		switch d.Pick(3, "shape") {
		case 0: // let eq(x : A) : B = fwd self x
			p.Decls = append(p.Decls, &ast.Decl{Kind: ast.DFun, Name: fmt.Sprintf("eq%d", i), Ty: tb(), Params: []ast.Param{{Name: "x", Ty: ta()}},
				Body: &ast.Term{Kind: ast.TFwd, X: ast.SelfNm, Y: ast.N("x")}})
		case 1: // let id(x : A) : A = fwd self x ; let use(y : B) : A = id(y)
			p.Decls = append(p.Decls, &ast.Decl{Kind: ast.DFun, Name: fmt.Sprintf("id%d", i), Ty: ta(), Params: []ast.Param{{Name: "x", Ty: ta()}},
				Body: &ast.Term{Kind: ast.TFwd, X: ast.SelfNm, Y: ast.N("x")}})
			p.Decls = append(p.Decls, &ast.Decl{Kind: ast.DFun, Name: fmt.Sprintf("use%d", i), Ty: ta(), Params: []ast.Param{{Name: "y", Ty: tb()}},
				Body: &ast.Term{Kind: ast.TCall, Fn: fmt.Sprintf("id%d", i), Args: []ast.Nm{ast.N("y")}}})
		default: // let mk(x : A) : A = fwd self x ; let cut(y : A) : B = z : B <- new mk(y); fwd self z
			p.Decls = append(p.Decls, &ast.Decl{Kind: ast.DFun, Name: fmt.Sprintf("mk%d", i), Ty: ta(), Params: []ast.Param{{Name: "x", Ty: ta()}},
				Body: &ast.Term{Kind: ast.TFwd, X: ast.SelfNm, Y: ast.N("x")}})
			p.Decls = append(p.Decls, &ast.Decl{Kind: ast.DFun, Name: fmt.Sprintf("cut%d", i), Ty: tb(), Params: []ast.Param{{Name: "y", Ty: ta()}},
				Body: &ast.Term{Kind: ast.TNew, X: ast.N("z"), Ann: tb(), Body: &ast.Term{Kind: ast.TCall, Fn: fmt.Sprintf("mk%d", i), Args: []ast.Nm{ast.N("y")}},
					K: &ast.Term{Kind: ast.TFwd, X: ast.SelfNm, Y: ast.N("z")}}})
		}
	}
	v, _ := refcheck.Program(p, true)
	if v.Unknown {
		h.S.Count("reference_unknown")
		return nil
	}
	c := &caseC07{Text: p.Text(nil), Mutant: "equality program: " + strings.Join(log, "; "), Reason: v.Reason, Detail: v.Detail, Site: v.Site, Expect: "reject", NonTriv: true}
	if v.Accept {
		c.Expect = "accept"
	}
	h.S.Count("equality_program->" + c.Expect)
	return c
}

func genC07(rt *rapid.T, h *harness.H) interface{} {
	if rapid.IntRange(0, 99).Draw(rt, "operands") >= 92 {
		c := operandMatrix(rt, h)
		if c == nil {
			return nil
		}
		return c
	}
	if rapid.IntRange(0, 99).Draw(rt, "matrix") >= 93 {
		c := independenceMatrix(rt, h)
		if c == nil {
			return nil
		}
		return c
	}
	if rapid.IntRange(0, 99).Draw(rt, "equalityprogram") >= 80 {
		c := equalityProgram(rt, h)
		if c != nil {
			h.S.Sample(map[string]interface{}{"text": c.Text, "expect": c.Expect, "mutation": c.Mutant, "reason": c.Reason})
		}
		if c == nil {
			return nil
		}
		return c
	}
	p, g := genProgram(rt, h)
	if p == nil {
		return nil
	}
	var c *caseC07
	if rapid.IntRange(0, 99).Draw(rt, "mutate") < 65 {
		c = mutantCase(rt, h, p, gen.MutationKinds)
		if c == nil {
			return nil
		}
		h.S.Count("mutation:" + c.Mutant[:strings.Index(c.Mutant, ":")] + "->" + c.Expect)
	} else {
		c = &caseC07{Text: p.Text(nil), Expect: "accept", Feats: g.Feat, NonTriv: len(g.Feat) >= 4}
	}
	h.S.Sample(map[string]interface{}{"text": c.Text, "expect": c.Expect, "mutation": c.Mutant, "reason": c.Reason})
	return c
}

func TestC07(t *testing.T) {
	harness.Run(t, harness.Prop{
		ID:    "C07",
		New:   func() interface{} { return &caseC07{} },
		Gen:   genC07,
		Check: checkC07,
		Size:  func(c interface{}) int { return len(c.(*caseC07).Text) },
	})
}
