package props

import (
	"fmt"
	"sort"
	"strings"
	"testing"
	"time"

	"pgregory.net/rapid"

	"verif/internal/ast"
	"verif/internal/gen"
	"verif/internal/harness"
	"verif/internal/pool"
	"verif/internal/reftypes"
	"verif/internal/wire"
)

// C16 — mode inference is deterministic, complete and annotation-stable.

type variantC16 struct {
	What string
	Text string
}

type caseC16 struct {
	Variants []variantC16
	WellForm bool
	Reason   string
	Defs     map[string]*wire.Ty // expected resolved definition bodies
	DefMode  map[string]string
	Sigs     map[string][]*wire.Ty // function name -> [return, params...]
	NonTriv  bool
}

func checkC16(h *harness.H, ci interface{}) *harness.Failure {
	c := ci.(*caseC16)
	key := ""
	if c.NonTriv {
		key = c.Variants[0].Text
	}
	h.S.Eval(key)
	if c.WellForm {
		h.S.Count("well-formed")
	} else {
		h.S.Count("ill-formed:" + c.Reason)
	}
	for vi, v := range c.Variants {
		res := h.Call(0, &wire.Req{Op: "check", Text: v.Text, SettleMs: 3000, WantDump: true}, 30*time.Second)
		if res.Outcome != pool.OK {
			return &harness.Failure{Inconclusive: true, Msg: "checker " + res.Outcome.String()}
		}
		r := res.Resp
		if !r.ParseOK {
			return harness.Failf("generated program does not parse: %s\n%s", r.ParseErr, v.Text)
		}
		if r.CheckOK != c.WellForm {
			f := harness.Failf("variant %q: verdict %s, the reference inference says well-formed=%v (%s)\n%s\n(first variant:\n%s)", v.What, verdictStr(r), c.WellForm, c.Reason, v.Text, c.Variants[0].Text)
			if c.Reason == reftypes.HeadVsShift {
				f.Known = "F15"
			}
			if vi > 0 {
				f.Msg = "verdict not stable under " + v.What + ": " + f.Msg
			}
			return f
		}
		if !c.WellForm {
			continue
		}
		for _, td := range r.Dump.Types {
			var bad []string
			badModes(td.Type, &bad)
			if len(bad) > 0 || (td.Mode != "rep" && td.Mode != "mul" && td.Mode != "aff" && td.Mode != "lin") {
				return harness.Failf("variant %q: after successful typechecking type %s still has nodes without a mode: %v (definition mode %s)\n%s", v.What, td.Name, bad, td.Mode, v.Text)
			}
			if want := c.DefMode[td.Name]; want != td.Mode {
				return harness.Failf("variant %q: definition %s got mode %s, the reference inference gives %s\n%s", v.What, td.Name, td.Mode, want, v.Text)
			}
			if want := c.Defs[td.Name]; tyJSON(want) != tyJSON(td.Type) {
				return harness.Failf("variant %q: modes inside definition %s differ from the reference inference\n got  %s\n want %s\n%s", v.What, td.Name, tyJSON(td.Type), tyJSON(want), v.Text)
			}
		}
		for _, fd := range r.Dump.Funcs {
			want := c.Sigs[fd.Name]
			if want == nil {
				continue
			}
			got := []*wire.Ty{fd.Type}
			for _, p := range fd.Params {
				got = append(got, p.Ty)
			}
			for i := range got {
				var bad []string
				badModes(got[i], &bad)
				if len(bad) > 0 {
					return harness.Failf("variant %q: signature of %s has nodes without a mode after typechecking: %v\n%s", v.What, fd.Name, bad, v.Text)
				}
				if i < len(want) && tyJSON(want[i]) != tyJSON(got[i]) {
					return harness.Failf("variant %q: modes in the signature of %s (position %d) differ from the reference inference\n got  %s\n want %s\n%s", v.What, fd.Name, i, tyJSON(got[i]), tyJSON(want[i]), v.Text)
				}
			}
		}
	}
	return nil
}

func genC16(rt *rapid.T, h *harness.H) interface{} {
	d := gen.D{T: rt}
	g := &gen.TyGen{D: d, MaxDepth: 3}
	decls := g.Env(d.Int(1, 5, "ndefs"), "T")
	// remove annotations at a random subset of definitions, whether or not inference recovers them
	for _, dc := range decls {
		if dc.Ty.Ann != "" && d.Chance(40, "strip") {
			dc.Ty.Ann = ""
		}
	}
	env, ill := reftypes.Resolve(decls)
	c := &caseC16{Defs: map[string]*wire.Ty{}, DefMode: map[string]string{}, Sigs: map[string][]*wire.Ty{}}
	// users with inline signature types
	type user struct {
		name string
		ty   *ast.Ty
	}
	var users []user
	if ill == nil {
		c.WellForm = true
		for i, n := range env.Order {
			if d.Chance(50, "user") {
				users = append(users, user{fmt.Sprintf("u%d", i), ast.NameTy(ast.Unset, n)})
			}
		}
		nin := d.Int(0, 2, "ninline")
		for i := 0; i < nin; i++ {
			t := g.Body(g.GenMode(), 2, true)
			if !t.IsShift() && d.Chance(60, "ann") {
				t.Ann = g.ModeWord(t.M)
			}
			users = append(users, user{fmt.Sprintf("v%d", i), t})
		}
		for _, u := range users {
			rt, ill2 := env.ResolveAnn(u.ty, "signature of "+u.name)
			if ill2 != nil {
				ill = ill2
				c.WellForm = false
				break
			}
			c.Sigs[u.name] = []*wire.Ty{wireOf(rt), wireOf(rt)}
		}
	}
	if ill != nil {
		c.WellForm = false
		c.Reason = ill.Reason
	} else {
		for _, n := range env.Order {
			c.Defs[n] = wireOf(env.Defs[n].Ty)
			c.DefMode[n] = env.Defs[n].Mode.String()
			if env.Defs[n].Mode != ast.Rep && decls[indexOf(decls, n)].Ty.Ann == "" && env.Cyclic(env.Defs[n].Ty) {
				c.NonTriv = true
			}
			if env.Defs[n].Mode != ast.Rep && decls[indexOf(decls, n)].Ty.Ann == "" && decls[indexOf(decls, n)].Ty.K != ast.KUp && decls[indexOf(decls, n)].Ty.K != ast.KDown && len(decls) >= 2 {
				c.NonTriv = true
			}
		}
	}
	render := func(ds []*ast.Decl, us []user) string {
		var sb strings.Builder
		type item struct{ text string }
		var items []string
		for _, dc := range ds {
			items = append(items, dc.Text(nil))
		}
		for _, u := range us {
			items = append(items, fmt.Sprintf("let %s(x : %s) : %s = fwd self x", u.name, u.ty.Text(), u.ty.Text()))
		}
		for _, it := range items {
			sb.WriteString(it + "\n")
		}
		return sb.String()
	}
	c.Variants = append(c.Variants, variantC16{"as generated", render(decls, users)})
	// permuted declarations
	perm := rapid.Permutation(append([]*ast.Decl{}, decls...)).Draw(rt, "perm")
	uperm := append([]user{}, users...)
	sort.SliceStable(uperm, func(i, j int) bool { return uperm[i].name > uperm[j].name })
	var sb strings.Builder
	// interleave users before definitions to vary order across kinds too
	sb.WriteString(render(nil, uperm))
	sb.WriteString(render(perm, nil))
	c.Variants = append(c.Variants, variantC16{"permuting the declarations", sb.String()})
	if ill == nil {
		// inferred head annotations written explicitly
		expl := (&ast.Program{Decls: decls}).Clone().Decls
		for _, dc := range expl {
			if !dc.Ty.IsShift() {
				dc.Ty.Ann = env.Defs[dc.Name].Mode.String()
			}
		}
		var us2 []user
		for _, u := range users {
			t := u.ty.Clone()
			if !t.IsShift() {
				rt, _ := env.ResolveAnn(u.ty, "")
				t.Ann = rt.M.String()
			}
			us2 = append(us2, user{u.name, t})
		}
		c.Variants = append(c.Variants, variantC16{"writing the inferred head annotations explicitly", render(expl, us2)})
	}
	h.S.Sample(map[string]interface{}{"text": c.Variants[0].Text, "well_formed": c.WellForm, "def_modes": c.DefMode})
	return c
}

func indexOf(ds []*ast.Decl, name string) int {
	for i, d := range ds {
		if d.Name == name {
			return i
		}
	}
	return 0
}

func TestC16(t *testing.T) {
	harness.Run(t, harness.Prop{
		ID:    "C16",
		New:   func() interface{} { return &caseC16{} },
		Gen:   genC16,
		Check: checkC16,
		Size:  func(c interface{}) int { return len(c.(*caseC16).Variants[0].Text) },
	})
}
