package props

import (
	"fmt"
	"regexp"
	"sort"
	"strings"
	"testing"
	"time"

	"pgregory.net/rapid"

	"verif/internal/gen"
	"verif/internal/harness"
	"verif/internal/pool"
	"verif/internal/wire"
)

// C13 — the interpreter is free of data races (Go race detector on a -race build of the worker).

var raceSiteRe = regexp.MustCompile(`(?m)^\s+(grits/[^\s(]+)[^\n]*\n\s+(/[^\s]+:\d+)`)

// fingerprint of a race report: the first Grits frame of each of the two accesses.
func raceFingerprints(report string) []string {
	var out []string
	for _, blk := range strings.Split(report, "==================") {
		if !strings.Contains(blk, "WARNING: DATA RACE") {
			continue
		}
		var sites []string
		parts := regexp.MustCompile(`(?m)^(Read|Write|Previous read|Previous write|Atomic|Previous atomic)[^\n]*\n`).Split(blk, -1)
		for _, p := range parts[1:] {
			if m := raceSiteRe.FindStringSubmatch(p); m != nil {
				f := m[2]
				if i := strings.LastIndex(f, "/"); i >= 0 {
					f = f[i+1:]
				}
				sites = append(sites, strings.TrimPrefix(m[1], "grits/")+"@"+f)
			}
			if len(sites) == 2 {
				break
			}
		}
		sort.Strings(sites)
		out = append(out, strings.Join(sites, " <-> "))
	}
	return out
}

func checkC13(h *harness.H, ci interface{}) *harness.Failure {
	c := ci.(*caseRun)
	r, f := checkTotal(h, c.Text)
	if f != nil {
		return &harness.Failure{Inconclusive: true}
	}
	h.Worker(0).RaceReports() // the checker itself is sequential; discard
	if !r.ParseOK || !r.CheckOK {
		h.S.Eval("")
		h.S.Count("not_accepted")
		return nil
	}
	key := ""
	if c.Spawns >= 8 && (c.Copies > 0 || strings.Contains(c.Text, "(")) {
		key = c.Text
	}
	h.S.Eval(key)
	// all three modes, also for programs with contraction (until N6 was repaired those could crash
	// in the non-polarized mode; a failed run is still no verdict here - only race reports count)
	modes := []int{0, 1, 2}
	cfgs := cfgMatrix(c.Seed, modes, 1)
	if c.Contraction {
		cfgs = append(cfgs, runCfg{Mode: 2, Monitor: true, Procs: 4, Yield: c.Seed%1000 + 1})
	}
	for i := range cfgs {
		if cfgs[i].Procs < 4 {
			cfgs[i].Procs = 4
		}
	}
	// the CLI / webserver entry point as well
	cfgs = append(cfgs, runCfg{Mode: 0, Procs: 4, Entry: "init", Monitor: c.Seed%2 == 0})
	for _, cfg := range cfgs {
		req := &wire.Req{Op: "run", Text: c.Text, Mode: cfg.Mode, Monitor: cfg.Monitor, Procs: cfg.Procs, YieldSeed: cfg.Yield, Entry: cfg.Entry, TimeoutMs: 5000, PostAPI: true}
		res := h.Call(1, req, 60*time.Second)
		h.S.Count("runs:" + modeName[cfg.Mode] + cfg.Entry)
		if res.Outcome != pool.OK {
			h.S.Count("run_" + res.Outcome.String())
			h.Worker(1).RaceReports()
			if cfg.Mode == 2 && c.Contraction {
				h.S.Count("np_contraction_run_failed")
				continue
			}
			return &harness.Failure{Inconclusive: true, Msg: "run " + res.Outcome.String()}
		}
		rep := h.Worker(1).RaceReports()
		if rep == "" {
			continue
		}
		fps := raceFingerprints(rep)
		sort.Strings(fps)
		uniq := []string{}
		for _, f := range fps {
			if len(uniq) == 0 || uniq[len(uniq)-1] != f {
				uniq = append(uniq, f)
			}
		}
		first := rep
		if i := strings.Index(rep[20:], "=================="); i > 0 {
			first = rep[:min(len(rep), i+40)]
		}
		return harness.Failf("[%s] the race detector reported %d data race(s); access sites: %s\nfirst report:\n%s\nprogram:\n%s", cfg, len(fps), strings.Join(uniq, "; "), short(first, 3000), c.Text)
	}
	report := func(where string, rep string) *harness.Failure {
		fps := raceFingerprints(rep)
		sort.Strings(fps)
		first := rep
		if i := strings.Index(rep[20:], "=================="); i > 0 {
			first = rep[:min(len(rep), i+40)]
		}
		return harness.Failf("[%s] the race detector reported %d data race(s); access sites: %s\nfirst report:\n%s\nprogram:\n%s", where, len(fps), strings.Join(fps, "; "), short(first, 3000), c.Text)
	}
	// a process held up for longer than the interpreter's inactivity timer (50 ms) resumes after the
	// run has been declared finished, while the host reads the finished run's results
	est := uint64(2*(c.Spawns+c.Comm) + 3)
	for k := uint64(0); k < 2; k++ {
		req := &wire.Req{Op: "run", Text: c.Text, Mode: int(k), Monitor: (c.Seed+k)%2 == 0, Procs: 4, YieldSeed: c.Seed + 17*k + 1, Entry: "init",
			StallMs: 120, StallAt: 1 + (c.Seed/7+k*5)%est, TimeoutMs: 5000, PostAPI: true}
		res := h.Call(1, req, 60*time.Second)
		h.S.Count("runs:stalled-process")
		if res.Outcome != pool.OK {
			h.S.Count("stalled_run_" + res.Outcome.String())
			if h.S.Counters["stalled_run_"+res.Outcome.String()] <= 2 {
				h.S.Note("stalled run " + res.Outcome.String() + ": " + harness.Brief(res.Stderr) + "\n" + c.Text)
			}
			h.Worker(1).RaceReports()
			return &harness.Failure{Inconclusive: true, Msg: "run " + res.Outcome.String()}
		}
		if rep := h.Worker(1).RaceReports(); rep != "" {
			return report(fmt.Sprintf("%s via InitializeProcesses, one process stalled 120 ms at hook visit %d", modeName[int(k)], req.StallAt), rep)
		}
	}
	if c.Untyped != "" {
		ms := []int{0, 1, 2}
		if c.Contraction {
			ms = []int{0, 1}
		}
		for _, m := range ms {
			req := &wire.Req{Op: "run", Text: c.Untyped, Mode: m, Monitor: true, Procs: 4, YieldSeed: c.Seed%99991 + uint64(m) + 1, NoCheck: true, TimeoutMs: 5000, PostAPI: true}
			res := h.Call(1, req, 60*time.Second)
			h.S.Count("runs:unchecked-inlined:" + modeName[m])
			if res.Outcome != pool.OK {
				// what an unchecked program does is not C13's business; only race reports count
				h.S.Count("unchecked_run_" + res.Outcome.String())
				h.Worker(1).RaceReports()
				continue
			}
			if res.Resp != nil && !res.Resp.ParseOK {
				h.S.Count("unchecked_variant_does_not_parse")
			}
			if rep := h.Worker(1).RaceReports(); rep != "" {
				f := report(modeName[m]+", unchecked, cuts inlined, monitor attached", rep)
				f.Msg += "\nvariant with inlined cuts:\n" + c.Untyped
				return f
			}
		}
	}
	return nil
}

func TestC13(t *testing.T) {
	harness.Run(t, harness.Prop{
		ID:    "C13",
		New:   func() interface{} { return &caseRun{} },
		Setup: func(h *harness.H) { h.Race = true },
		Gen: func(rt *rapid.T, h *harness.H) interface{} {
			progHook = func(g *gen.ProgGen) { g.FwdPol = true }
			c, p, g := genRunCaseP(rt, h, 15)
			if c == nil {
				return nil
			}
			if p != nil && c.Origin == "g-prog" && !g.LocalNames && !c.Contraction {
				// (not with contraction: duplicating a process needs the polarities of its free names,
				// which only the typechecker provides)
				// the dialect of the maintainers' run-time tests: cut bodies written out inline, the
				// program executed without the typechecker (which refuses such cuts)
				if q, n := (gen.D{T: rt}).InlineCuts(p); n > 0 {
					c.Untyped = q.Text(nil)
					h.S.Count("with_inlined_cut_variant")
				}
			}
			h.S.Sample(map[string]interface{}{"text": c.Text, "origin": c.Origin})
			return c
		},
		Check: checkC13,
		Size:  func(c interface{}) int { return len(c.(*caseRun).Text) },
	})
}
