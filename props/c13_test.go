package props

import (
	"regexp"
	"sort"
	"strings"
	"testing"
	"time"

	"pgregory.net/rapid"

	"verif/internal/harness"
	"verif/internal/pool"
	"verif/internal/wire"
)

// C13 — the interpreter is free of data races (Go race detector on a -race build of the worker).

var raceSiteRe = regexp.MustCompile(`(?m)^\s+(grits/[^\s(]+)[^\n]*\n\s+(/[^\s]+:\d+)`)

// fingerprint of a race report: the first Grits frame of each of the two accesses.
func raceFingerprints(report string) []string {
	var out []string
	for _, blk := range strings.Split(report, "==================") {
		if !strings.Contains(blk, "WARNING: DATA RACE") {
			continue
		}
		var sites []string
		parts := regexp.MustCompile(`(?m)^(Read|Write|Previous read|Previous write|Atomic|Previous atomic)[^\n]*\n`).Split(blk, -1)
		for _, p := range parts[1:] {
			if m := raceSiteRe.FindStringSubmatch(p); m != nil {
				f := m[2]
				if i := strings.LastIndex(f, "/"); i >= 0 {
					f = f[i+1:]
				}
				sites = append(sites, strings.TrimPrefix(m[1], "grits/")+"@"+f)
			}
			if len(sites) == 2 {
				break
			}
		}
		sort.Strings(sites)
		out = append(out, strings.Join(sites, " <-> "))
	}
	return out
}

func checkC13(h *harness.H, ci interface{}) *harness.Failure {
	c := ci.(*caseRun)
	r, f := checkTotal(h, c.Text)
	if f != nil {
		return &harness.Failure{Inconclusive: true}
	}
	h.Worker(0).RaceReports() // the checker itself is sequential; discard
	if !r.ParseOK || !r.CheckOK {
		h.S.Eval("")
		h.S.Count("not_accepted")
		return nil
	}
	key := ""
	if c.Spawns >= 8 && (c.Copies > 0 || strings.Contains(c.Text, "(")) {
		key = c.Text
	}
	h.S.Eval(key)
	// all three modes, also for programs with contraction: in the non-polarized mode those may
	// crash or deadlock (known finding N6), which is ignored here - only race reports count
	modes := []int{0, 1, 2}
	cfgs := cfgMatrix(c.Seed, modes, 1)
	if c.Contraction {
		cfgs = append(cfgs, runCfg{Mode: 2, Monitor: true, Procs: 4, Yield: c.Seed%1000 + 1})
	}
	for i := range cfgs {
		if cfgs[i].Procs < 4 {
			cfgs[i].Procs = 4
		}
	}
	// the CLI / webserver entry point as well
	cfgs = append(cfgs, runCfg{Mode: 0, Procs: 4, Entry: "init", Monitor: c.Seed%2 == 0})
	for _, cfg := range cfgs {
		req := &wire.Req{Op: "run", Text: c.Text, Mode: cfg.Mode, Monitor: cfg.Monitor, Procs: cfg.Procs, YieldSeed: cfg.Yield, Entry: cfg.Entry, TimeoutMs: 5000, PostAPI: true}
		res := h.Call(1, req, 60*time.Second)
		h.S.Count("runs:" + modeName[cfg.Mode] + cfg.Entry)
		if res.Outcome != pool.OK {
			h.S.Count("run_" + res.Outcome.String())
			h.Worker(1).RaceReports()
			if cfg.Mode == 2 && c.Contraction {
				h.S.Count("np_contraction_failure_ignored(N6)")
				continue
			}
			return &harness.Failure{Inconclusive: true, Msg: "run " + res.Outcome.String()}
		}
		rep := h.Worker(1).RaceReports()
		if rep == "" {
			continue
		}
		fps := raceFingerprints(rep)
		sort.Strings(fps)
		uniq := []string{}
		for _, f := range fps {
			if len(uniq) == 0 || uniq[len(uniq)-1] != f {
				uniq = append(uniq, f)
			}
		}
		first := rep
		if i := strings.Index(rep[20:], "=================="); i > 0 {
			first = rep[:i+40]
		}
		return harness.Failf("[%s] the race detector reported %d data race(s); access sites: %s\nfirst report:\n%s\nprogram:\n%s", cfg, len(fps), strings.Join(uniq, "; "), short(first, 3000), c.Text)
	}
	return nil
}

func TestC13(t *testing.T) {
	harness.Run(t, harness.Prop{
		ID:    "C13",
		New:   func() interface{} { return &caseRun{} },
		Setup: func(h *harness.H) { h.Race = true },
		Gen: func(rt *rapid.T, h *harness.H) interface{} {
			c := genRunCase(rt, h, 15)
			if c == nil {
				return nil
			}
			h.S.Sample(map[string]interface{}{"text": c.Text, "origin": c.Origin})
			return c
		},
		Check: checkC13,
		Size:  func(c interface{}) int { return len(c.(*caseRun).Text) },
	})
}
