package props

import (
	"fmt"
	"strings"
	"testing"
	"time"

	"pgregory.net/rapid"

	"verif/internal/harness"
	"verif/internal/wire"
)

// C17 — the four modes form the adjoint-logic preorder with monotone structural rules.
// Oracle: the order written down here, independently of types/modality.go.

var modeNames = []string{"rep", "mul", "aff", "lin"}

// refGeq: m >= k, i.e. "m can be down-shifted to k".
func refGeq(m, k string) bool { return m == k || m == "rep" || k == "lin" }
func refW(m string) bool      { return m == "rep" || m == "aff" }
func refC(m string) bool      { return m == "rep" || m == "mul" }

var documentedSpellings = map[string]string{
	"r": "rep", "rep": "rep", "replicable": "rep",
	"m": "mul", "mul": "mul", "multicast": "mul",
	"a": "aff", "aff": "aff", "affine": "aff",
	"l": "lin", "lin": "lin", "linear": "lin",
}

type caseC17 struct {
	A, B, C  string
	Spelling string
}

func checkC17(h *harness.H, ci interface{}) *harness.Failure {
	c := ci.(*caseC17)
	res := h.Call(0, &wire.Req{Op: "modetable", Spellings: []string{c.Spelling}}, 10*time.Second)
	if res.Outcome != 0 {
		return harness.Failf("modetable(%q): worker %s: %s", c.Spelling, res.Outcome, res.Stderr)
	}
	tb := res.Resp.Table
	b := func(k string) bool { v, _ := tb[k].(bool); return v }
	s := func(k string) string { v, _ := tb[k].(string); return v }
	key := fmt.Sprintf("%s/%s/%s/%s", c.A, c.B, c.C, c.Spelling)
	h.S.Eval(key)
	down := func(x, y string) bool { return b("down:" + x + ":" + y) }
	up := func(x, y string) bool { return b("up:" + x + ":" + y) }
	// agreement with the reference order (both shift directions), pairwise on (A,B), (B,C), (A,C)
	for _, p := range [][2]string{{c.A, c.B}, {c.B, c.C}, {c.A, c.C}, {c.A, c.A}} {
		x, y := p[0], p[1]
		if down(x, y) != refGeq(x, y) {
			return harness.Failf("CanBeDownshiftedTo(%s,%s)=%v, the preorder says %v", x, y, down(x, y), refGeq(x, y))
		}
		if up(x, y) != refGeq(y, x) {
			return harness.Failf("CanBeUpshiftedTo(%s,%s)=%v, expected the converse of down-shifting: %v", x, y, up(x, y), refGeq(y, x))
		}
		if up(x, y) != down(y, x) {
			return harness.Failf("up(%s,%s)=%v is not the converse of down(%s,%s)=%v", x, y, up(x, y), y, x, down(y, x))
		}
		if b("eq:"+x+":"+y) != (x == y) || b("eqcopy:"+x+":"+y) != (x == y) {
			return harness.Failf("Equals(%s,%s) incoherent with identity", x, y)
		}
		if down(x, y) {
			// sigma(y) subset of sigma(x)
			if (b("W:"+y) && !b("W:"+x)) || (b("C:"+y) && !b("C:"+x)) {
				return harness.Failf("%s >= %s but %s permits a structural rule %s does not", x, y, y, x)
			}
		}
		if down(x, y) && down(y, x) && x != y {
			return harness.Failf("antisymmetry: %s and %s down-shift to each other", x, y)
		}
	}
	if !down(c.A, c.A) {
		return harness.Failf("reflexivity fails for %s", c.A)
	}
	if down(c.A, c.B) && down(c.B, c.C) && !down(c.A, c.C) {
		return harness.Failf("transitivity fails for %s >= %s >= %s", c.A, c.B, c.C)
	}
	if !down("rep", c.A) || !down(c.A, "lin") {
		return harness.Failf("replicable is not top / linear not bottom w.r.t. %s", c.A)
	}
	if down("aff", "mul") || down("mul", "aff") {
		return harness.Failf("affine and multicast must be incomparable")
	}
	for _, m := range []string{c.A, c.B, c.C} {
		if b("W:"+m) != refW(m) || b("C:"+m) != refC(m) {
			return harness.Failf("structural rules of %s: weakening=%v contraction=%v", m, b("W:"+m), b("C:"+m))
		}
		if s("str:"+m) != m || s("copy:"+m) != m {
			return harness.Failf("String/Copy of %s gives %q/%q", m, s("str:"+m), s("copy:"+m))
		}
	}
	if s("default") != "rep" {
		return harness.Failf("default mode is %q, expected replicable", s("default"))
	}
	// spelling
	got := s("spell:" + c.Spelling)
	if want, ok := documentedSpellings[strings.ToLower(c.Spelling)]; ok {
		if got != want {
			return harness.Failf("StringToMode(%q)=%q, want %q", c.Spelling, got, want)
		}
	} else if !strings.HasPrefix(got, "invalid") {
		return harness.Failf("StringToMode(%q)=%q, want an invalid mode", c.Spelling, got)
	}
	return nil
}

func TestC17(t *testing.T) {
	var spellList []string
	for s := range documentedSpellings {
		spellList = append(spellList, s)
	}
	p := harness.Prop{
		ID:  "C17",
		New: func() interface{} { return &caseC17{} },
		Gen: func(rt *rapid.T, h *harness.H) interface{} {
			c := &caseC17{
				A: rapid.SampledFrom(modeNames).Draw(rt, "a"),
				B: rapid.SampledFrom(modeNames).Draw(rt, "b"),
				C: rapid.SampledFrom(modeNames).Draw(rt, "c"),
			}
			switch rapid.IntRange(0, 2).Draw(rt, "spellkind") {
			case 0:
				c.Spelling = rapid.SampledFrom(spellList).Draw(rt, "spell")
			case 1: // random casing of a documented spelling
				s := []byte(rapid.SampledFrom(spellList).Draw(rt, "spell"))
				for i := range s {
					if rapid.Bool().Draw(rt, "up") {
						s[i] = strings.ToUpper(string(s[i]))[0]
					}
				}
				c.Spelling = string(s)
			default: // some other identifier
				c.Spelling = rapid.StringMatching(`[a-zA-Z_][a-zA-Z0-9_']{0,8}`).Draw(rt, "ident")
			}
			h.S.Sample(c)
			return c
		},
		Check: checkC17,
		Size:  func(c interface{}) int { return len(c.(*caseC17).Spelling) },
		Setup: func(h *harness.H) {
			if h.Replay || h.ShardN != 0 {
				return
			}
			// exhaustive enumeration of the finite part: 64 triples x 12 documented spellings
			for _, a := range modeNames {
				for _, b := range modeNames {
					for _, c := range modeNames {
						for _, sp := range spellList {
							cs := &caseC17{A: a, B: b, C: c, Spelling: sp}
							if f := checkC17(h, cs); f != nil {
								h.Record(f, cs, len(sp))
								t.Fatalf("%s", f.Msg)
							}
						}
					}
				}
			}
			h.S.Count("exhaustive_triples_x_spellings")
			h.S.Note("exhaustive: all 64 mode triples x 12 documented spellings enumerated; random casing / other identifiers sampled")
		},
	}
	harness.Run(t, p)
}
