package props

import (
	"fmt"
	"sort"
	"strings"
	"testing"
	"time"

	"pgregory.net/rapid"

	"verif/internal/ast"
	"verif/internal/gen"
	"verif/internal/harness"
	"verif/internal/pool"
	"verif/internal/refcheck"
	"verif/internal/refsem"
	"verif/internal/wire"
)

// C19 — runs are isolated: a program's verdict and outcome after any history in one host
// process equal those in a fresh process.

type progC19 struct {
	Text  string
	Class string // accept | reject | garbage
	Contraction bool
}

type stepC19 struct {
	Op      string // run | check | parse
	Prog    int
	Mode    int
	Monitor bool
	Yield   uint64
}

type caseC19 struct {
	Progs []progC19
	Steps []stepC19
}

func (c *caseC19) req(s stepC19) *wire.Req {
	p := c.Progs[s.Prog]
	switch s.Op {
	case "parse":
		return &wire.Req{Op: "parse", Text: p.Text, WantDump: true}
	case "check":
		return &wire.Req{Op: "check", Text: p.Text, SettleMs: 20000}
	}
	to := 10000
	if p.Class == "diverge" {
		to = 250 // it never ends by itself: the host cancels it
	}
	return &wire.Req{Op: "run", Text: p.Text, Mode: s.Mode, Monitor: s.Monitor, Procs: 4, YieldSeed: s.Yield, TimeoutMs: to, PostAPI: true}
}

// errKey keeps the part of a type error that is a function of the program: the declaration it
// is reported in. The detail after it is not compared: Grits builds several messages by iterating
// over Go maps (which dependency breaks independence, which names are left in the context, which
// labels are not matched), so their wording legitimately differs from run to run.
func errKey(e string) string {
	loc, detail := "", e
	if i := strings.Index(e, ";"); i > 0 && strings.HasPrefix(e, "(") {
		loc, detail = e[:i], strings.TrimSpace(e[i+1:])
	}
	// the kind of error: the leading words of the message's fixed wording, cut at the first word
	// that quotes a name, a type or a number
	var kind []string
	for _, w := range strings.Fields(detail) {
		if strings.ContainsAny(w, "'\"(<[{0123456789") || len(kind) >= 4 {
			break
		}
		kind = append(kind, w)
	}
	return loc + " | " + strings.Join(kind, " ")
}

// observable part of a response
func observe(op string, r *wire.Resp) string {
	var sb strings.Builder
	fmt.Fprintf(&sb, "parse_ok=%v parse_err=%q", r.ParseOK, r.ParseErr)
	if op == "parse" {
		if r.Dump != nil {
			fmt.Fprintf(&sb, " decls=%d/%d/%d", len(r.Dump.Procs), len(r.Dump.Funcs), len(r.Dump.Types))
		}
		return sb.String()
	}
	fmt.Fprintf(&sb, " check_ok=%v check_err_at=%q", r.CheckOK, errKey(r.CheckErr))
	if op == "run" && r.Ran {
		p := append([]string{}, r.Prints...)
		sort.Strings(p)
		fmt.Fprintf(&sb, " prints=[%s] quiescent=%v stuck_receivers=%d parked_senders=%d", strings.Join(p, " "), r.Quiescent, r.NRecv, r.NSend)
	}
	return sb.String()
}

func checkC19(h *harness.H, ci interface{}) *harness.Failure {
	c := ci.(*caseC19)
	// non-trivial: a rejected/unparseable program before an accepted run, and a repeated program
	seenBad, badThenRun, repeated := false, false, false
	used := map[int]int{}
	for _, s := range c.Steps {
		cl := c.Progs[s.Prog].Class
		if cl != "accept" {
			seenBad = true
		} else if s.Op == "run" && seenBad {
			badThenRun = true
		}
		used[s.Prog]++
		if used[s.Prog] > 1 {
			repeated = true
		}
	}
	key := ""
	if badThenRun && repeated {
		b := &strings.Builder{}
		for _, s := range c.Steps {
			fmt.Fprintf(b, "%s:%d:%d;", s.Op, s.Prog, s.Mode)
		}
		for _, p := range c.Progs {
			b.WriteString(p.Text)
		}
		key = b.String()
	}
	h.S.Eval(key)
	h.S.Add("steps", len(c.Steps))
	hist, err := pool.Start(h.Opts())
	if err != nil {
		h.S.InfraProblem(err.Error())
		return &harness.Failure{Inconclusive: true}
	}
	defer hist.Kill()
	var trace []string
	for i, s := range c.Steps {
		req := c.req(s)
		a := hist.CallNoRestart(req, 60*time.Second)
		b := pool.Fresh(h.Opts(), req, 60*time.Second)
		h.S.Count("op:" + s.Op + ":" + c.Progs[s.Prog].Class)
		if b.Outcome != pool.OK {
			// the program misbehaves even alone: that is C01/C09/C11's finding, not an isolation problem
			h.S.Count("fresh_worker_" + b.Outcome.String())
			return &harness.Failure{Inconclusive: true, Msg: "fresh worker " + b.Outcome.String()}
		}
		desc := fmt.Sprintf("step %d: %s program #%d (%s) mode=%d monitor=%v", i+1, s.Op, s.Prog, c.Progs[s.Prog].Class, s.Mode, s.Monitor)
		if a.Outcome != pool.OK {
			return harness.Failf("%s: in a fresh process it answers, after the history below the host process %s\nhistory:\n  %s\nstderr: %s\nprogram:\n%s", desc,
				map[pool.Outcome]string{pool.Crash: "died", pool.Hang: "hangs", pool.Infra: "is broken"}[a.Outcome], strings.Join(trace, "\n  "), harness.Brief(a.Stderr), c.Progs[s.Prog].Text)
		}
		if c.Progs[s.Prog].Class == "diverge" && s.Op == "run" {
			// a program that runs for ever is cancelled by the host after 250 ms; how far it got is
			// a matter of timing, but it must be gone afterwards
			h.S.Count("diverging_run_cancelled")
			trace = append(trace, desc+" -> cancelled after 250 ms")
			if !a.Resp.ParseOK || !a.Resp.CheckOK || !b.Resp.ParseOK || !b.Resp.CheckOK {
				return harness.Failf("%s: a diverging program of the fixed family is not accepted (generator problem)\n%s", desc, c.Progs[s.Prog].Text)
			}
			if !a.Resp.Timeout {
				h.S.Count("diverging_run_ended_by_itself")
			}
			if a.Resp.BusyAfterCancel > 0 {
				return harness.Failf("%s: 10 s after the host cancelled the run, %d of its processes are still running in the host process (left-over activity that prints into and competes with every later run)\nhistory:\n  %s\nprogram:\n%s",
					desc, a.Resp.BusyAfterCancel, strings.Join(trace, "\n  "), c.Progs[s.Prog].Text)
			}
			continue
		}
		oa, ob := observe(s.Op, a.Resp), observe(s.Op, b.Resp)
		trace = append(trace, desc+" -> "+short(oa, 200))
		if a.Resp.Timeout || b.Resp.Timeout {
			h.S.Count("timeout")
			return &harness.Failure{Inconclusive: true, Msg: "timeout"}
		}
		if oa != ob {
			return harness.Failf("%s gives a different result after the history than in a fresh process\n  after history: %s\n  fresh process: %s\nhistory:\n  %s\nprogram:\n%s", desc, oa, ob, strings.Join(trace, "\n  "), c.Progs[s.Prog].Text)
		}
		if s.Op != "parse" && a.Resp.CheckRan && !a.Resp.Settled {
			return harness.Failf("%s leaves typechecker work running in the host process (not settled after 20 s)\nhistory:\n  %s", desc, strings.Join(trace, "\n  "))
		}
	}
	switch r := hist.Ping(60 * time.Second); r.Outcome {
	case pool.OK:
	case pool.Crash:
		return harness.Failf("the host process died after the history\n  %s\nstderr: %s", strings.Join(trace, "\n  "), harness.Brief(r.Stderr))
	default:
		// no answer within a minute: on a loaded machine that is no verdict
		h.S.Count("host_silent_after_history:" + r.Outcome.String())
		return &harness.Failure{Inconclusive: true, Msg: "host silent after the history"}
	}
	return nil
}

func genC19(rt *rapid.T, h *harness.H) interface{} {
	d := gen.D{T: rt}
	c := &caseC19{}
	np := d.Int(2, 5, "nprogs")
	if d.Chance(55, "family") {
		// a family: one program and variants of it that keep its names (type, function, channel
		// names) but change a definition or a term, so that whatever a run leaves behind under a name
		// meets another meaning of that name
		p, _ := genProgramOpt(rt, h, true)
		if p == nil {
			return nil
		}
		c.Progs = append(c.Progs, progC19{Text: p.Text(nil), Class: "accept", Contraction: hasContraction(p)})
		for i := 1; i < np; i++ {
			if d.Chance(25, "stripped") {
				// the same program without its function definitions, or without its type definitions:
				// every call / type name dangles, so it must be rejected - whatever an earlier run of the
				// full program left behind under those names
				what := ast.DFun
				cl := "reject"
				if d.Bool("striptypes") {
					what = ast.DType
				}
				q := &ast.Program{}
				dropped := 0
				for _, dc := range p.Decls {
					if dc.Kind == what {
						dropped++
						continue
					}
					q.Decls = append(q.Decls, dc)
				}
				if dropped > 0 {
					v, _ := refcheck.Program(q, true)
					if !v.Unknown && !v.Accept {
						c.Progs = append(c.Progs, progC19{Text: q.Text(nil), Class: cl})
						h.S.Count("family_member_with_definitions_stripped")
						continue
					}
				}
			}
			kind := d.Of([]string{"typedef-change", "typedef-change", "typedef-change", "ann-inequivalent", "wrong-label", "swap-send-args", "ret-mode"}, "famkind")
			q, _, ok := d.Mutate(p, kind)
			if !ok {
				continue
			}
			v, _ := refcheck.Program(q, true)
			if v.Unknown {
				continue
			}
			cl := "reject"
			if v.Accept {
				cl = "accept"
				if r := refsemOK(q); !r {
					continue
				}
			}
			c.Progs = append(c.Progs, progC19{Text: q.Text(nil), Class: cl, Contraction: hasContraction(q)})
		}
		np = len(c.Progs)
		if np < 2 {
			return nil
		}
		h.S.Count("family_history")
	}
	for i := len(c.Progs); i < np; i++ {
		if d.Chance(12, "diverging") {
			c.Progs = append(c.Progs, progC19{Text: divergingProgram(d), Class: "diverge"})
			continue
		}
		switch d.Pick(5, "progclass") {
		case 0:
			base := func() string { return (&gen.Syn{D: d}).Program().Text(&astStyle) }
			txt, _ := d.Text(base)
			if len(txt) > 5000 {
				txt = txt[:5000]
			}
			c.Progs = append(c.Progs, progC19{Text: txt, Class: "garbage"})
		case 1:
			p, _ := genProgramOpt(rt, h, true)
			if p == nil {
				return nil
			}
			q, _, ok := d.Mutate(p, d.Of(gen.MutationKinds, "mutation"))
			if !ok {
				return nil
			}
			v, _ := refcheck.Program(q, true)
			if v.Unknown || v.Accept {
				return nil
			}
			c.Progs = append(c.Progs, progC19{Text: q.Text(nil), Class: "reject"})
		default:
			cr := genRunCase(rt, h, 0)
			if cr == nil || cr.RefProblem != "" {
				return nil
			}
			c.Progs = append(c.Progs, progC19{Text: cr.Text, Class: "accept", Contraction: cr.Contraction})
		}
	}
	ns := d.Int(2, 14, "nsteps")
	for i := 0; i < ns; i++ {
		s := stepC19{Prog: d.Pick(np, "prog")}
		switch d.Pick(6, "op") {
		case 0:
			s.Op = "parse"
		case 1:
			s.Op = "check"
		default:
			s.Op = "run"
			s.Mode = d.Pick(3, "mode")
			if s.Mode == 2 && c.Progs[s.Prog].Contraction {
				s.Mode = 1 // the non-polarized outcome of programs with contraction is one of several admitted ones: no model to compare with
			}
			s.Monitor = d.Bool("monitor")
			if d.Bool("yield") {
				s.Yield = uint64(d.Int(1, 1000000, "yseed"))
			}
		}
		c.Steps = append(c.Steps, s)
	}
	h.S.Sample(map[string]interface{}{"programs": len(c.Progs), "steps": c.Steps, "first_program": short(c.Progs[0].Text, 300)})
	return c
}

// divergingProgram: a well-typed program that never stops — by internal steps only (calls and
// prints), by spawning and waiting, or by an endless conversation between two processes.
func divergingProgram(d gen.D) string {
	m := []string{"lin", "aff", "mul", "rep"}[d.Pick(4, "divmode")]
	tick := []string{"tick", "t", "again"}[d.Pick(3, "ticklabel")]
	switch d.Pick(4, "divkind") {
	case 0:
		return fmt.Sprintf("let loop() : %s 1 =\n    print %s;\n    loop()\nprc[spin] : %s 1 =\n    loop()\n", m, tick, m)
	case 1:
		return fmt.Sprintf("let unit() : %s 1 =\n    close self\nlet loop() : %s 1 =\n    x <- new unit();\n    wait x;\n    print %s;\n    loop()\nprc[spin] : %s 1 =\n    loop()\n", m, m, tick, m)
	case 2:
		return fmt.Sprintf("type srv = %s &{ping : rsp}\ntype rsp = %s +{pong : srv}\nlet server() : %s srv =\n    case self (ping<s> => r <- new server(); s.pong<r>)\n"+
			"let client(s : %s srv) : %s 1 =\n    a : %s rsp <- new s.ping<self>;\n    case a (pong<b> => print %s; client(b))\nprc[talk] : %s 1 =\n    sv <- new server();\n    client(sv)\n", m, m, m, m, m, m, tick, m)
	}
	return fmt.Sprintf("let loop() : %s 1 =\n    loop()\nprc[quiet] : %s 1 =\n    loop()\nprc[other] : %s 1 =\n    print %s;\n    close self\n", m, m, m, tick)
}

func refsemOK(p *ast.Program) bool {
	r := refsem.Run(p, 50000)
	return r.Error == "" && !r.OutOfBudget && r.Stuck == 0
}

func TestC19(t *testing.T) {
	harness.Run(t, harness.Prop{
		ID:    "C19",
		New:   func() interface{} { return &caseC19{} },
		Gen:   genC19,
		Check: checkC19,
		Size: func(ci interface{}) int {
			c := ci.(*caseC19)
			n := 50 * len(c.Steps)
			for _, p := range c.Progs {
				n += len(p.Text)
			}
			return n
		},
	})
}
