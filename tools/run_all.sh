#!/bin/bash
# runs every claimed check's quick (or thorough) tier sequentially; prints one line per check
tier=${1:-quick}
cd "$(dirname "$0")/.."
for p in C17 C11 C12 C15 C08 C10 C16 C09 C07 C05 C06 C01 C02 C03 C04 C13 C14 C18 C19; do
  out=$(./check $p $tier 2>&1); code=$?
  echo "$p exit=$code $(echo "$out" | grep -c '^VIOLATION') viol | $(echo "$out" | grep -v KNOWN | tail -1)"
done
