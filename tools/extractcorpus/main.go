// extractcorpus pulls the accept/reject snippets out of cmd/typechecker_test.go (development-time
// calibration of the reference typechecker; not used by any registered check).
package main

import (
	"encoding/json"
	"fmt"
	"go/ast"
	"go/parser"
	"go/token"
	"os"
	"strconv"
)

type Case struct {
	Func string `json:"func"`
	Idx  int    `json:"idx"`
	Text string `json:"text"`
	Pass bool   `json:"pass"`
}

func main() {
	fset := token.NewFileSet()
	f, err := parser.ParseFile(fset, os.Args[1], nil, 0)
	if err != nil {
		panic(err)
	}
	var out []Case
	for _, d := range f.Decls {
		fd, ok := d.(*ast.FuncDecl)
		if !ok || fd.Body == nil {
			continue
		}
		vars := map[string][]string{}
		ast.Inspect(fd.Body, func(n ast.Node) bool {
			switch x := n.(type) {
			case *ast.AssignStmt:
				if len(x.Lhs) == 1 && len(x.Rhs) == 1 {
					id, ok1 := x.Lhs[0].(*ast.Ident)
					cl, ok2 := x.Rhs[0].(*ast.CompositeLit)
					if ok1 && ok2 {
						var ss []string
						for _, e := range cl.Elts {
							if bl, ok := e.(*ast.BasicLit); ok && bl.Kind == token.STRING {
								s, _ := strconv.Unquote(bl.Value)
								ss = append(ss, s)
							}
						}
						vars[id.Name] = ss
					}
				}
			case *ast.CallExpr:
				if id, ok := x.Fun.(*ast.Ident); ok && id.Name == "runThroughTypechecker" && len(x.Args) == 3 {
					v, _ := x.Args[1].(*ast.Ident)
					p, _ := x.Args[2].(*ast.Ident)
					if v != nil && p != nil {
						for i, s := range vars[v.Name] {
							out = append(out, Case{fd.Name.Name, i, s, p.Name == "true"})
						}
					}
				}
			}
			return true
		})
	}
	b, _ := json.MarshalIndent(out, "", " ")
	fmt.Println(string(b))
}
