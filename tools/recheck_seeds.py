#!/usr/bin/env python3
"""Re-run the stored seeded changes against the checks that are recorded as catching them.

usage: tools/recheck_seeds.py [id ...]        (default: every seeded/<id>/)

For each seeded/<id>/: apply patch.diff to a scratch worktree of /repo's HEAD (skipped as 'stale' if it
no longer applies - later repairs touched the same lines), build it, and run the quick tier of every
check listed in meta.json's caught_by_quick with VERIF_REPO pointing at the scratch tree. Prints one
line per change and a summary; exit 1 if a change that applies is no longer caught by any listed check.
Development-time tool (sensitivity regression after generator changes); not a registered check.
"""
import json, os, subprocess, sys, glob

ROOT = os.path.dirname(os.path.dirname(os.path.abspath(__file__)))
ENV = dict(os.environ, GOFLAGS="-mod=mod", GOPROXY="off", GOSUMDB="off", GOTOOLCHAIN="local")


def sh(cmd, **kw):
    return subprocess.run(cmd, shell=True, env=ENV, stdout=subprocess.PIPE, stderr=subprocess.STDOUT, text=True, **kw)


def main():
    ids = sys.argv[1:] or sorted(os.path.basename(os.path.dirname(f)) for f in glob.glob(ROOT + "/seeded/*/meta.json"))
    lost, stale, ok = [], [], []
    for i in ids:
        meta = json.load(open(f"{ROOT}/seeded/{i}/meta.json"))
        wt = f"/tmp/recheck_{i}"
        sh(f"git -C /repo worktree remove --force {wt}")
        if sh(f"git -C /repo worktree add -q --detach {wt} HEAD").returncode != 0:
            print(f"{i}: cannot create worktree")
            continue
        try:
            if sh(f"git -C {wt} apply {ROOT}/seeded/{i}/patch.diff").returncode != 0:
                stale.append(i)
                print(f"{i}: stale (patch no longer applies to HEAD)")
                continue
            if sh(f"cd {wt} && go build ./... && go build -tags verif ./...").returncode != 0:
                stale.append(i)
                print(f"{i}: stale (does not build on HEAD)")
                continue
            caught = []
            for c in meta.get("caught_by_quick", []):
                r = sh(f"cd {ROOT} && VERIF_REPO={wt} ./check {c} quick")
                n = sum(1 for l in r.stdout.splitlines() if l.startswith("VIOLATION"))
                if r.returncode == 1 and n > 0:
                    caught.append(f"{c}({n})")
                elif r.returncode not in (0, 1):
                    caught.append(f"{c}(exit {r.returncode}!)")
            if any("!" not in c for c in caught):
                ok.append(i)
                print(f"{i}: caught by {', '.join(caught)}  [recorded: {', '.join(meta.get('caught_by_quick', []))}]")
            else:
                lost.append(i)
                print(f"{i}: NOT CAUGHT any more {caught} [recorded: {', '.join(meta.get('caught_by_quick', []))}]")
        finally:
            sh(f"git -C /repo worktree remove --force {wt}")
        sys.stdout.flush()
    print(f"summary: {len(ok)} caught, {len(stale)} stale, {len(lost)} lost {lost}")
    sys.exit(1 if lost else 0)


if __name__ == "__main__":
    main()
