#!/usr/bin/env python3
"""Regenerates MANIFEST.json from props/meta.json (one entry per built check)."""
import json, os
ROOT = os.path.dirname(os.path.dirname(os.path.abspath(__file__)))
meta = json.load(open(os.path.join(ROOT, "props", "meta.json")))
props = [json.loads(l) for l in open(os.path.join(ROOT, "properties.jsonl"))]
checks, na = [], []
for p in props:
    pid = p["id"]
    m = meta.get(pid)
    if not m or m.get("disabled"):
        na.append({"property_id": pid, "reason": (m or {}).get("disabled", "check not built yet in this session (work in progress; see DESIGN.md section 7)")})
        continue
    checks.append({
        "property_id": pid,
        "quick_cmd": "./check %s quick" % pid,
        "thorough_cmd": "./check %s thorough" % pid,
        "evidence_file": "/verif/evidence/%s.json" % pid,
        "replay_cmd_template": "./check replay {path}",
        "engine": "rapid+gritsworker",
        "level_claimed": {"category": "exploration", "text": m["level_text"], "design_ref": m.get("design_ref", "DESIGN.md section 3, " + pid)},
        "level_note": m["level_note"],
        "technique": m["technique"],
    })
man = {
    "version": 1,
    "setup_cmd": "cd /verif && ./check build",
    "hooks": {
        "guard": "verif",
        "enable": "go build -tags verif (the worker cmd/gritsworker is always built with -tags verif; hooks are process.verifPoint(k) schedule-perturbation points)",
        "baseline_off_cmd": "cd /repo && go test -mod=mod -json -vet=off -count=1 -timeout 25m ./...",
        "source_commits": json.load(open(os.path.join(ROOT, "tools", "hook_commits.json"))),
        "add_only": True,
    },
    "engines": [{"name": "rapid+gritsworker", "path": "/verif/props", "serves_properties": [c["property_id"] for c in checks],
                 "kind_free_text": "property-based testing with pgregory.net/rapid v1.3.0 (sharded by seed), oracles in /verif/internal, the code under test runs in gritsworker subprocesses built from /repo's working tree"}],
    "checks": checks,
    "not_applicable": na,
    "notes": "Exit codes: 0 held, 1 violation (VIOLATION line), 2 infrastructure problem (no verdict). Known findings: /verif/known_findings.json.",
}
json.dump(man, open(os.path.join(ROOT, "MANIFEST.json"), "w"), indent=1)
print("claimed:", [c["property_id"] for c in checks])
