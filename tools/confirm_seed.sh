#!/bin/bash
# usage: tools/confirm_seed.sh <Cxx> <""|2> <test regex> [extra go test flags]
# Confirms a delivered seeded change: demo passes on the clean tree, the change builds, the pinned suite
# still passes with it, and the demo fails with it.
set -u
id=$1; n=$2; re=$3; shift 3; extra="$*"
export GOFLAGS=-mod=mod GOPROXY=off GOSUMDB=off GOTOOLCHAIN=local
src=${SEEDROOT:-/tmp/seed}/$id/seed_out
wt=/tmp/conf_$id$n
git -C /repo worktree remove --force $wt 2>/dev/null
git -C /repo worktree add -q --detach $wt HEAD || exit 2
dest=${DEST:-cmd}
if [ "$dest" = own ]; then dest=seeddemo$n; mkdir -p $wt/$dest; fi
for f in $src/demo$n/*_test.go $src/demo$n/*_test.go.txt; do
  [ -f "$f" ] || continue
  b=$(basename "$f" .txt); cp "$f" $wt/$dest/$b
done
cp $src/demo$n/*.grits $wt/$dest/ 2>/dev/null
clean=$(cd $wt && go test -vet=off -count=1 $extra -run "$re" ./$dest/ 2>&1 | tail -1)
if ! git -C $wt apply $src/patch$n.diff 2>/tmp/apply_err; then echo "$id$n: PATCH DOES NOT APPLY TO HEAD: $(head -2 /tmp/apply_err)"; git -C /repo worktree remove --force $wt; exit 3; fi
build=$(cd $wt && go build ./... 2>&1 && go build -tags verif ./... 2>&1 | tail -2)
suite=$(cd $wt && go test -vet=off -count=1 -skip 'TestSeed|TestSimpleDUP$|TestSimpleMultipleProvidersInitially' ./cmd ./parser ./process ./types 2>&1 | grep -E "^(FAIL|---|panic)" | head -5 | tr '\n' ' ')
seeded=$(cd $wt && go test -vet=off -count=1 $extra -run "$re" ./$dest/ 2>&1 | tail -1)
echo "$id$n: clean=[$clean] build=[${build:-ok}] suite_failures=[${suite:-none}] seeded=[$seeded]"
git -C /repo worktree remove --force $wt
