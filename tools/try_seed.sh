#!/bin/bash
# usage: tools/try_seed.sh <name> <patch.diff> "<check ids>" [tier]
# Applies a seeded change to a scratch worktree of /repo's HEAD, confirms it builds and that the pinned
# suite still passes, then runs the given checks against that tree (VERIF_REPO). Cleans up afterwards.
set -u
name=$1; patch=$2; checks=$3; tier=${4:-quick}
export GOFLAGS=-mod=mod GOPROXY=off GOSUMDB=off GOTOOLCHAIN=local
wt=/tmp/try_$name
git -C /repo worktree remove --force $wt 2>/dev/null
git -C /repo worktree add -q --detach $wt HEAD || exit 2
if ! git -C $wt apply $patch; then echo "PATCH DOES NOT APPLY"; git -C /repo worktree remove --force $wt; exit 2; fi
(cd $wt && go build ./... && go build -tags verif ./...) || { echo "DOES NOT BUILD"; git -C /repo worktree remove --force $wt; exit 2; }
if [ "${SKIP_SUITE:-}" = "" ]; then
  (cd $wt && go test -vet=off -count=1 ./... 2>&1 | grep -v "no test files" | grep -E "^(ok|FAIL|---)" | grep -v "TestSimpleDUP\|TestSimpleMultipleProvidersInitially" | tr '\n' ' '); echo
fi
for c in $checks; do
  out=$(cd /verif && VERIF_REPO=$wt ./check $c $tier 2>&1)
  code=$?
  echo "== $c exit=$code: $(echo "$out" | grep -c '^VIOLATION') violation line(s); $(echo "$out" | tail -1)"
  echo "$out" | grep -A3 '^VIOLATION' | head -8 | cut -c1-400
done
git -C /repo worktree remove --force $wt
