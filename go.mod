module verif

go 1.23

require (
	grits v0.0.0
	pgregory.net/rapid v1.3.0
)

require golang.org/x/exp v0.0.0-20240808152545-0cdaa3abc0fa // indirect

replace grits => /repo
