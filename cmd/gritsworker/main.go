// gritsworker is the only binary of the verification framework that links Grits.
// It answers JSON-line requests on stdin with JSON-line responses on the original stdout;
// everything Grits itself prints goes to an internal pipe (so that `> label` lines can be
// attributed to the request in flight) and panics go to stderr, which the pool captures.
package main

import (
	"bufio"
	"encoding/json"
	"fmt"
	"os"
	"runtime"
	"runtime/debug"
	"strings"
	"sync"
	"time"

	"verif/internal/wire"
)

var (
	protoOut *bufio.Writer
	capMu    sync.Mutex
	capBuf   []byte
	capCond  = sync.NewCond(&capMu)
	capW     *os.File
)

func main() {
	debug.SetMaxStack(256 << 20)
	// a worker whose request never returns (that is what some checks look for) must not outlive the
	// test binary that started it: leave as soon as the parent is gone
	if parent := os.Getppid(); parent > 1 {
		go func() {
			for {
				time.Sleep(2 * time.Second)
				if os.Getppid() != parent {
					os.Exit(3)
				}
			}
		}()
	}
	protoOut = bufio.NewWriterSize(os.Stdout, 1<<20)
	r, w, err := os.Pipe()
	if err != nil {
		fmt.Fprintln(os.Stderr, "worker: pipe:", err)
		os.Exit(3)
	}
	capW = w
	os.Stdout = w
	go func() {
		buf := make([]byte, 1<<16)
		for {
			n, err := r.Read(buf)
			if n > 0 {
				capMu.Lock()
				capBuf = append(capBuf, buf[:n]...)
				capCond.Broadcast()
				capMu.Unlock()
			}
			if err != nil {
				return
			}
		}
	}()

	in := bufio.NewReaderSize(os.Stdin, 1<<20)
	dec := json.NewDecoder(in)
	for {
		var req wire.Req
		if err := dec.Decode(&req); err != nil {
			return
		}
		fmt.Fprintf(os.Stderr, "\n@@REQ %s\n", req.Op)
		resp := handle(&req)
		resp.Op = req.Op
		b, err := json.Marshal(resp)
		if err != nil {
			b, _ = json.Marshal(wire.Resp{Op: req.Op, InternalE: "marshal: " + err.Error()})
		}
		protoOut.Write(b)
		protoOut.WriteByte('\n')
		protoOut.Flush()
		fmt.Fprintf(os.Stderr, "\n@@DONE %s\n", req.Op)
	}
}

var sentinelN int

// takeCaptured waits until everything written to the captured stdout so far has been read,
// and returns (and clears) it.
func takeCaptured() string {
	sentinelN++
	s := fmt.Sprintf("\x01SENTINEL-%d\x01\n", sentinelN)
	capW.WriteString(s)
	deadline := time.Now().Add(5 * time.Second)
	capMu.Lock()
	defer capMu.Unlock()
	for !strings.Contains(string(capBuf), s) {
		if time.Now().After(deadline) {
			break
		}
		// cond with timeout: poll
		capMu.Unlock()
		time.Sleep(50 * time.Microsecond)
		capMu.Lock()
	}
	out := string(capBuf)
	capBuf = capBuf[:0]
	if i := strings.Index(out, s); i >= 0 {
		out = out[:i] + out[i+len(s):]
	}
	return out
}

func handle(req *wire.Req) (resp *wire.Resp) {
	resp = &wire.Resp{}
	switch req.Op {
	case "ping":
		return resp
	case "parse":
		opParse(req, resp)
	case "check":
		opCheck(req, resp)
	case "run":
		opRun(req, resp)
	case "eqtype":
		opEqType(req, resp)
	case "unfold":
		opUnfold(req, resp)
	case "rttype":
		opRoundTripType(req, resp)
	case "rtterm":
		opRoundTripTerm(req, resp)
	case "modetable":
		opModeTable(req, resp)
	case "gc":
		runtime.GC()
	default:
		resp.InternalE = "unknown op " + req.Op
	}
	return resp
}
