package main

import (
	"fmt"
	"regexp"
	"runtime"
	"strconv"
	"strings"
	"sync"
	"sync/atomic"
	"syscall"
	"time"

	"grits/parser"
	"grits/process"
	"grits/types"
	"verif/internal/wire"
)

// ---------- goroutine snapshots ----------

var hdrRe = regexp.MustCompile(`^goroutine (\d+) \[([^\],]+)`)

type gInfo struct {
	id    int
	state string
	text  string
}

var stackBuf = make([]byte, 1<<22)

func snapshot() []gInfo {
	var n int
	for {
		n = runtime.Stack(stackBuf, true)
		if n < len(stackBuf) {
			break
		}
		stackBuf = make([]byte, 2*len(stackBuf))
	}
	var out []gInfo
	for _, g := range strings.Split(string(stackBuf[:n]), "\n\n") {
		m := hdrRe.FindStringSubmatch(g)
		if m == nil {
			continue
		}
		id, _ := strconv.Atoi(m[1])
		out = append(out, gInfo{id: id, state: m[2], text: g})
	}
	return out
}

func idSet(gs []gInfo) map[int]bool {
	s := make(map[int]bool, len(gs))
	for _, g := range gs {
		s[g.id] = true
	}
	return s
}

// innermost frame whose function belongs to grits/process
func gritsFrame(g gInfo) string {
	lines := strings.Split(g.text, "\n")
	for i := 1; i < len(lines); i++ {
		l := lines[i]
		if strings.HasPrefix(l, "grits/process.") {
			if j := strings.LastIndex(l, "("); j > 0 {
				l = l[:j]
			}
			return l
		}
	}
	return ""
}

// ---------- parse / check ----------

// cpuTime is the CPU time (user+system) consumed by the calling OS thread so far; unlike
// wall-clock time it does not grow when the machine is busy with other work, and unlike the
// process-wide figure it is not inflated by the parallel background workers of the garbage collector.
func cpuTime() time.Duration {
	var ru syscall.Rusage
	const rusageThread = 1 // RUSAGE_THREAD: only the calling OS thread (the caller locks its goroutine to it)
	if err := syscall.Getrusage(rusageThread, &ru); err != nil {
		return 0
	}
	return time.Duration(ru.Utime.Nano() + ru.Stime.Nano())
}

func parseTimed(text string, resp *wire.Resp) ([]*process.Process, []process.Name, *process.GlobalEnvironment, bool) {
	runtime.LockOSThread()
	var m0, m1 runtime.MemStats
	runtime.ReadMemStats(&m0)
	t0 := time.Now()
	c0 := cpuTime()
	procs, assumed, env, err := parser.ParseString(text)
	resp.ParseUs = time.Since(t0).Microseconds()
	resp.ParseCPUUs = (cpuTime() - c0).Microseconds()
	runtime.ReadMemStats(&m1)
	// bytes allocated during the parse: unlike any clock this is a function of the input alone
	resp.ParseAllocBytes = int64(m1.TotalAlloc - m0.TotalAlloc)
	resp.ParseMallocs = int64(m1.Mallocs - m0.Mallocs)
	runtime.UnlockOSThread()
	if err != nil {
		resp.ParseErr = err.Error()
		if resp.ParseErr == "" {
			resp.ParseErr = "(empty error text)"
		}
		return nil, nil, nil, false
	}
	resp.ParseOK = true
	if env == nil {
		resp.InternalE = "parser returned nil environment without error"
		return nil, nil, nil, false
	}
	env.LogLevels = []process.LogLevel{}
	return procs, assumed, env, true
}

func opParse(req *wire.Req, resp *wire.Resp) {
	procs, assumed, env, ok := parseTimed(req.Text, resp)
	if ok && req.WantDump {
		resp.Dump = dumpAll(procs, assumed, env, req.DumpTy)
	}
}

func checkTimed(req *wire.Req, resp *wire.Resp, procs []*process.Process, assumed []process.Name, env *process.GlobalEnvironment) bool {
	before := idSet(snapshot())
	if req.YieldSeed != 0 {
		// delay the caller of Typecheck right after it has started the checker goroutine (hook point 11)
		installPerturb(func(k int) {
			if k == 11 {
				time.Sleep(time.Duration(1+req.YieldSeed%3) * time.Millisecond)
			}
		})
		defer installPerturb(nil)
	}
	t0 := time.Now()
	err := process.Typecheck(procs, assumed, env)
	resp.CheckUs = time.Since(t0).Microseconds()
	resp.CheckRan = true
	if err != nil {
		resp.CheckErr = err.Error()
		if resp.CheckErr == "" {
			resp.CheckErr = "(empty error text)"
		}
	} else {
		resp.CheckOK = true
	}
	// Watch the typechecker goroutine(s) this call started until none is running/runnable.
	settle := time.Duration(req.SettleMs) * time.Millisecond
	deadline := time.Now().Add(settle)
	wait := 50 * time.Microsecond
	for {
		busy, parked := 0, 0
		for _, g := range snapshot() {
			if before[g.id] || !strings.Contains(g.text, "grits/process.typecheckFunctionsAndProcesses") {
				continue
			}
			if g.state == "chan send" || g.state == "chan receive" || g.state == "select" {
				parked++
			} else {
				busy++
			}
		}
		resp.Leftover = parked
		if busy == 0 {
			resp.Settled = true
			break
		}
		if time.Now().After(deadline) {
			break
		}
		time.Sleep(wait)
		if wait < 5*time.Millisecond {
			wait *= 2
		}
	}
	return err == nil
}

func opCheck(req *wire.Req, resp *wire.Resp) {
	procs, assumed, env, ok := parseTimed(req.Text, resp)
	if !ok {
		return
	}
	checkTimed(req, resp, procs, assumed, env)
	if req.WantDump {
		resp.Dump = dumpAll(procs, assumed, env, true)
	}
	if out := takeCaptured(); out != "" {
		resp.Stdout = trunc(out, 2000)
	}
}

func trunc(s string, n int) string {
	if len(s) > n {
		return s[:n] + "…"
	}
	return s
}

// ---------- run ----------

type perturb struct {
	seed    uint64
	n       atomic.Uint64
	bigAt   [4]uint64
	stallAt uint64
	stallMs int
}

func splitmix(x uint64) uint64 {
	x += 0x9e3779b97f4a7c15
	x = (x ^ (x >> 30)) * 0xbf58476d1ce4e5b9
	x = (x ^ (x >> 27)) * 0x94d049bb133111eb
	return x ^ (x >> 31)
}

func (p *perturb) point(k int) {
	i := p.n.Add(1)
	if p.stallMs > 0 && i == p.stallAt {
		time.Sleep(time.Duration(p.stallMs) * time.Millisecond)
		return
	}
	h := splitmix(p.seed ^ (i * 0x100000001b3) ^ uint64(k)<<56)
	for _, b := range p.bigAt {
		if b == i {
			time.Sleep(time.Duration(500+h%2500) * time.Microsecond)
			return
		}
	}
	switch r := h % 100; {
	case r < 60:
	case r < 85:
		runtime.Gosched()
	case r < 97:
		time.Sleep(time.Duration(10+(h>>8)%190) * time.Microsecond)
	default:
		for j := 0; j < 3; j++ {
			runtime.Gosched()
		}
	}
}

func classify(g gInfo) wire.Site {
	site := gritsFrame(g)
	s := wire.Site{State: g.state, Site: site, Kind: "other"}
	switch {
	case site == "grits/process.TransitionBySending" && g.state == "chan send":
		s.Kind = "send"
	case site == "grits/process.TransitionByReceiving" && g.state == "select":
		s.Kind = "recv"
	case site == "grits/process.(*ForwardForm).Transition" && g.state == "chan send":
		s.Kind = "fwd-send"
	case site == "grits/process.(*ForwardForm).Transition" && g.state == "chan receive":
		s.Kind = "fwd-recv"
	case (site == "grits/process.TransitionBySendingNP" || site == "grits/process.TransitionByReceivingNP" || site == "grits/process.(*ForwardForm).TransitionNP") && g.state == "select":
		s.Kind = "np-select"
	}
	return s
}

func opRun(req *wire.Req, resp *wire.Resp) {
	procs, assumed, env, ok := parseTimed(req.Text, resp)
	if !ok {
		return
	}
	if !req.NoCheck {
		if !checkTimed(&wire.Req{SettleMs: 2000}, resp, procs, assumed, env) {
			return
		}
	}
	if req.Procs > 0 {
		runtime.GOMAXPROCS(req.Procs)
	}
	takeCaptured()

	var pt *perturb
	if req.YieldSeed != 0 {
		pt = &perturb{seed: req.YieldSeed, stallAt: req.StallAt, stallMs: req.StallMs}
		for i := range pt.bigAt {
			pt.bigAt[i] = 1 + splitmix(req.YieldSeed+uint64(i)*77)%400
		}
		installPerturb(pt.point)
		defer installPerturb(nil)
	}

	timeout := time.Duration(req.TimeoutMs) * time.Millisecond
	if timeout <= 0 {
		timeout = 10 * time.Second
	}
	t0 := time.Now()
	resp.Ran = true

	if req.Entry == "init" {
		re := &process.RuntimeEnvironment{
			GlobalEnvironment: env,
			UseMonitor:        req.Monitor,
			Color:             true,
			ExecutionVersion:  process.Execution_Version(req.Mode),
			Typechecked:       !req.NoCheck,
			Delay:             0,
			Quiet:             false,
		}
		process.InitializeProcesses(procs, nil, nil, re)
		resp.RunUs = time.Since(t0).Microseconds()
		if req.PostAPI {
			resp.ProcCount = re.ProcessCount()
			resp.DeadCount = re.DeadProcessCount()
			_ = re.TimeTaken()
		}
		if req.StallMs > 0 {
			// a process that was held up longer than the inactivity timer resumes after the run has
			// been declared finished: give it the time to do so within this request, then use the
			// finished run's API once more
			time.Sleep(time.Duration(req.StallMs+150) * time.Millisecond)
			if req.PostAPI {
				_ = re.TimeTaken()
				_ = re.ProcessCount()
				_ = re.DeadProcessCount()
			}
		}
		collectPrints(resp)
		if pt != nil {
			resp.YieldPts = pt.n.Load()
		}
		return
	}

	base := idSet(snapshot())
	re, _, cancel := process.NewRuntimeEnvironment()
	re.GlobalEnvironment = env
	re.ExecutionVersion = process.Execution_Version(req.Mode)
	re.Typechecked = !req.NoCheck
	re.Quiet = false
	re.UseMonitor = req.Monitor

	channels := re.CreateChannelForEachProcess(procs)
	re.SubstituteNameInitialization(procs, channels)
	if req.Monitor {
		wg := new(sync.WaitGroup)
		wg.Add(1)
		re.InitializeMonitor(wg, nil)
		wg.Wait()
	}
	go re.HeartbeatReceiver(time.Hour, cancel)
	re.StartTransitions(procs)

	deadline := time.Now().Add(timeout)
	wait := 100 * time.Microsecond
	for {
		resp.Polls++
		time.Sleep(wait)
		if wait < 4*time.Millisecond {
			wait = wait * 3 / 2
		}
		gs := snapshot()
		busy := 0
		var final []wire.Site
		members := 0
		var busyTxt []string
		for _, g := range gs {
			if base[g.id] || !strings.Contains(g.text, "grits/process") {
				continue
			}
			if strings.Contains(g.text, "HeartbeatReceiver") || strings.Contains(g.text, "monitorLoop") || strings.Contains(g.text, "startMonitor") {
				continue
			}
			members++
			s := classify(g)
			if s.Kind == "other" {
				busy++
				if req.WantStacks && len(busyTxt) < 8 {
					busyTxt = append(busyTxt, g.text)
				}
			}
			final = append(final, s)
		}
		if members > resp.Goroutines {
			resp.Goroutines = members
		}
		if busy == 0 {
			resp.Quiescent = true
			resp.Final = final
			break
		}
		if time.Now().After(deadline) {
			resp.Timeout = true
			resp.Final = final
			resp.Stacks = trunc(strings.Join(busyTxt, "\n\n"), 20000)
			break
		}
	}
	for _, s := range resp.Final {
		switch s.Kind {
		case "send", "fwd-send":
			resp.NSend++
		case "recv", "fwd-recv":
			resp.NRecv++
		case "np-select":
			resp.NOther++
		}
	}
	resp.RunUs = time.Since(t0).Microseconds()
	cancel()
	if resp.Timeout {
		// the run was still active when it was cancelled: its processes must now stop. Wait (up to
		// 10 s, normally microseconds) until none of them is running any more, so that late output
		// does not leak into the next request, and report those that never stop.
		stopBy := time.Now().Add(10 * time.Second)
		w := 200 * time.Microsecond
		for {
			busy := 0
			for _, g := range snapshot() {
				if base[g.id] || !strings.Contains(g.text, "grits/process") {
					continue
				}
				if strings.Contains(g.text, "HeartbeatReceiver") || strings.Contains(g.text, "monitorLoop") || strings.Contains(g.text, "startMonitor") {
					continue
				}
				if classify(g).Kind == "other" {
					busy++
				}
			}
			resp.BusyAfterCancel = busy
			if busy == 0 || time.Now().After(stopBy) {
				break
			}
			time.Sleep(w)
			if w < 20*time.Millisecond {
				w *= 2
			}
		}
	}
	if req.PostAPI {
		resp.ProcCount = re.ProcessCount()
		resp.DeadCount = re.DeadProcessCount()
		_ = re.TimeTaken()
	}
	if req.Monitor && !resp.Timeout {
		_, log := re.StopMonitor()
		for _, e := range log {
			rd := wire.RuleD{Rule: process.RuleString[e.Rule]}
			for _, p := range e.Process.Providers {
				rd.Providers = append(rd.Providers, p.Ident)
			}
			if e.Rule == process.PRINT && e.Process.Body != nil {
				rd.Body = trunc(e.Process.Body.String(), 200)
			}
			resp.Rules = append(resp.Rules, rd)
		}
	}
	collectPrints(resp)
	if pt != nil {
		resp.YieldPts = pt.n.Load()
	}
	if req.Procs > 0 {
		runtime.GOMAXPROCS(runtime.NumCPU())
	}
}

func collectPrints(resp *wire.Resp) {
	out := takeCaptured()
	var rest []string
	for _, l := range strings.Split(out, "\n") {
		if strings.HasPrefix(l, "> ") {
			resp.Prints = append(resp.Prints, strings.TrimPrefix(l, "> "))
		} else if strings.TrimSpace(l) != "" {
			rest = append(rest, l)
		}
	}
	if len(rest) > 0 {
		resp.Stdout = trunc(strings.Join(rest, "\n"), 2000)
	}
}

// ---------- type-level ops ----------

func envOf(req *wire.Req, resp *wire.Resp) (types.LabelledTypesEnv, map[string]types.SessionType, bool) {
	_, _, env, ok := parseTimed(req.Text, resp)
	if !ok {
		return nil, nil, false
	}
	if !checkTimed(&wire.Req{SettleMs: 2000}, resp, nil, nil, env) {
		return nil, nil, false
	}
	lenv := types.ProduceLabelledSessionTypeEnvironment(*env.Types)
	byName := map[string]types.SessionType{}
	for _, d := range *env.Types {
		byName[d.Name] = types.NewLabelType(d.Name, d.Modality)
	}
	return lenv, byName, true
}

func opEqType(req *wire.Req, resp *wire.Resp) {
	lenv, byName, ok := envOf(req, resp)
	if !ok {
		return
	}
	for _, p := range req.Pairs {
		a, oka := byName[p[0]]
		b, okb := byName[p[1]]
		if !oka || !okb {
			resp.InternalE = fmt.Sprintf("eqtype: unknown name in pair %v", p)
			return
		}
		resp.Bools = append(resp.Bools, types.EqualType(types.CopyType(a), types.CopyType(b), lenv))
		if req.Unfold {
			ua, ub := types.Unfold(a, lenv), types.Unfold(b, lenv)
			resp.Bools2 = append(resp.Bools2, types.EqualType(ua, ub, lenv))
			resp.Bools3 = append(resp.Bools3, types.EqualType(types.CopyType(a), ub, lenv))
		}
	}
}

func opUnfold(req *wire.Req, resp *wire.Resp) {
	lenv, byName, ok := envOf(req, resp)
	if !ok {
		return
	}
	for _, n := range req.Names {
		a, oka := byName[n]
		if !oka {
			resp.InternalE = "unfold: unknown name " + n
			return
		}
		resp.Tys = append(resp.Tys, dumpTy(types.Unfold(a, lenv)))
	}
}

func opModeTable(req *wire.Req, resp *wire.Resp) {
	names := []string{"rep", "mul", "aff", "lin"}
	modes := map[string]types.Modality{}
	for _, n := range names {
		modes[n] = types.StringToMode(n)
	}
	t := map[string]interface{}{}
	for _, a := range names {
		m := modes[a]
		t["str:"+a] = m.String()
		t["full:"+a] = m.FullString()
		t["copy:"+a] = m.Copy().String()
		t["W:"+a] = m.AllowsWeakening()
		t["C:"+a] = m.AllowsContraction()
		for _, b := range names {
			t["up:"+a+":"+b] = m.CanBeUpshiftedTo(modes[b])
			t["down:"+a+":"+b] = m.CanBeDownshiftedTo(modes[b])
			t["eq:"+a+":"+b] = m.Equals(modes[b])
			t["eqcopy:"+a+":"+b] = m.Copy().Equals(modes[b].Copy())
		}
	}
	t["default"] = types.DefaultMode().String()
	for _, s := range req.Spellings {
		m := types.StringToMode(s)
		t["spell:"+s] = m.String()
	}
	resp.Table = t
}

func opRoundTripType(req *wire.Req, resp *wire.Resp) { resp.InternalE = "unused" }
func opRoundTripTerm(req *wire.Req, resp *wire.Resp) { resp.InternalE = "unused" }
