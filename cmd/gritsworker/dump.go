package main

import (
	"reflect"
	"unsafe"

	"grits/process"
	"grits/types"
	"verif/internal/wire"
)

func modeStr(m types.Modality) string {
	if m == nil || (reflect.ValueOf(m).Kind() == reflect.Ptr && reflect.ValueOf(m).IsNil()) {
		return "nil"
	}
	return m.String()
}

func dumpTy(t types.SessionType) *wire.Ty {
	if t == nil || (reflect.ValueOf(t).Kind() == reflect.Ptr && reflect.ValueOf(t).IsNil()) {
		return &wire.Ty{K: "nil"}
	}
	switch q := t.(type) {
	case *types.LabelType:
		return &wire.Ty{K: "name", M: modeStr(q.Mode), Name: q.Label}
	case *types.UnitType:
		return &wire.Ty{K: "one", M: modeStr(q.Mode)}
	case *types.SendType:
		return &wire.Ty{K: "send", M: modeStr(q.Mode), L: dumpTy(q.Left), R: dumpTy(q.Right)}
	case *types.ReceiveType:
		return &wire.Ty{K: "recv", M: modeStr(q.Mode), L: dumpTy(q.Left), R: dumpTy(q.Right)}
	case *types.SelectLabelType:
		r := &wire.Ty{K: "plus", M: modeStr(q.Mode)}
		for _, b := range q.Branches {
			r.Brs = append(r.Brs, wire.Br{L: b.Label, T: dumpTy(b.SessionType)})
		}
		return r
	case *types.BranchCaseType:
		r := &wire.Ty{K: "with", M: modeStr(q.Mode)}
		for _, b := range q.Branches {
			r.Brs = append(r.Brs, wire.Br{L: b.Label, T: dumpTy(b.SessionType)})
		}
		return r
	case *types.UpType:
		return &wire.Ty{K: "up", M: modeStr(q.To), From: modeStr(q.From), To: modeStr(q.To), C: dumpTy(q.Continuation)}
	case *types.DownType:
		return &wire.Ty{K: "down", M: modeStr(q.To), From: modeStr(q.From), To: modeStr(q.To), C: dumpTy(q.Continuation)}
	}
	return &wire.Ty{K: "unknown:" + reflect.TypeOf(t).String()}
}

func dumpName(n process.Name, withTy bool) wire.NameD {
	d := wire.NameD{Ident: n.Ident, IsSelf: n.IsSelf}
	if n.ExplicitPolarity != nil {
		switch *n.ExplicitPolarity {
		case types.POSITIVE:
			d.Pol = "+"
		case types.NEGATIVE:
			d.Pol = "-"
		default:
			d.Pol = "?"
		}
	}
	if withTy && n.Type != nil {
		d.Ty = dumpTy(n.Type)
	}
	return d
}

var (
	nameType  = reflect.TypeOf(process.Name{})
	labelType = reflect.TypeOf(process.Label{})
	formType  = reflect.TypeOf((*process.Form)(nil)).Elem()
)

// access returns an interface-able copy of a (possibly unexported) field.
func access(v reflect.Value) reflect.Value {
	if v.CanInterface() {
		return v
	}
	if v.CanAddr() {
		return reflect.NewAt(v.Type(), unsafe.Pointer(v.UnsafeAddr())).Elem()
	}
	return v
}

// dumpForm walks a Form by reflection (its fields are unexported).
func dumpForm(f process.Form, withTy bool) *wire.Form {
	if f == nil {
		return nil
	}
	v := reflect.ValueOf(f)
	if v.Kind() == reflect.Ptr {
		if v.IsNil() {
			return nil
		}
		v = v.Elem()
	}
	out := &wire.Form{F: v.Type().Name()}
	if v.Kind() != reflect.Struct {
		return out
	}
	for i := 0; i < v.NumField(); i++ {
		ft := v.Type().Field(i)
		fv := access(v.Field(i))
		switch {
		case ft.Type == nameType:
			if out.Names == nil {
				out.Names = map[string]wire.NameD{}
			}
			out.Names[ft.Name] = dumpName(fv.Interface().(process.Name), withTy)
		case ft.Type == labelType:
			out.Label = fv.Interface().(process.Label).L
		case ft.Type.Kind() == reflect.Interface && ft.Type.Implements(formType) || ft.Type == formType:
			if out.Subs == nil {
				out.Subs = map[string]*wire.Form{}
			}
			if !fv.IsNil() {
				out.Subs[ft.Name] = dumpForm(fv.Interface().(process.Form), withTy)
			}
		case ft.Type.Kind() == reflect.Slice && ft.Type.Elem() == nameType:
			for j := 0; j < fv.Len(); j++ {
				out.Params = append(out.Params, dumpName(fv.Index(j).Interface().(process.Name), withTy))
			}
		case ft.Type.Kind() == reflect.Slice && ft.Type.Elem().Kind() == reflect.Ptr:
			for j := 0; j < fv.Len(); j++ {
				if sub, ok := fv.Index(j).Interface().(process.Form); ok {
					out.Brs = append(out.Brs, dumpForm(sub, withTy))
				}
			}
		case ft.Type.Kind() == reflect.String:
			if out.Extra == nil {
				out.Extra = map[string]string{}
			}
			out.Extra[ft.Name] = fv.String()
			if ft.Name == "functionName" {
				out.Fn = fv.String()
			}
		case ft.Type.Kind() == reflect.Bool:
			if fv.Bool() {
				if out.Extra == nil {
					out.Extra = map[string]string{}
				}
				out.Extra[ft.Name] = "true"
			}
		}
	}
	return out
}

func dumpAll(procs []*process.Process, assumed []process.Name, env *process.GlobalEnvironment, withTy bool) *wire.Dump {
	d := &wire.Dump{}
	for _, p := range procs {
		pd := wire.ProcD{}
		for _, n := range p.Providers {
			pd.Providers = append(pd.Providers, n.Ident)
		}
		if p.Type != nil {
			pd.Type = dumpTy(p.Type)
			pd.TypeStr = p.Type.String()
		}
		pd.Body = dumpForm(p.Body, withTy)
		if p.Body != nil {
			pd.BodyStr = p.Body.String()
		}
		d.Procs = append(d.Procs, pd)
	}
	if env != nil && env.FunctionDefinitions != nil {
		for _, f := range *env.FunctionDefinitions {
			fd := wire.FuncD{Name: f.FunctionName}
			for _, n := range f.Parameters {
				fd.Params = append(fd.Params, dumpName(n, true))
			}
			if f.Type != nil {
				fd.Type = dumpTy(f.Type)
				fd.TypeStr = f.Type.String()
			}
			if f.UsesExplicitProvider {
				fd.Explicit = f.ExplicitProvider.Ident
			}
			fd.Body = dumpForm(f.Body, withTy)
			if f.Body != nil {
				fd.BodyStr = f.Body.String()
			}
			d.Funcs = append(d.Funcs, fd)
		}
	}
	if env != nil && env.Types != nil {
		for _, t := range *env.Types {
			td := wire.TypeD{Name: t.Name, Mode: modeStr(t.Modality)}
			if t.SessionType != nil {
				td.Type = dumpTy(t.SessionType)
				td.Str = t.SessionType.String()
				td.StrMode = t.SessionType.StringWithModality()
			}
			d.Types = append(d.Types, td)
		}
	}
	for _, n := range assumed {
		d.Assumed = append(d.Assumed, dumpName(n, true))
	}
	return d
}
