//go:build !verif

package main

func installPerturb(f func(int)) {}

const hooksEnabled = false
