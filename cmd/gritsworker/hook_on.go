//go:build verif

package main

import "grits/process"

func installPerturb(f func(int)) { process.SetVerifPoint(f) }

const hooksEnabled = true
