package gen

import (
	"fmt"
	"sort"

	"verif/internal/ast"
)

// Renderings of one program for the scoping metamorphic relation (C14): consistent renaming of
// channel names (per declaration), function names, type names and labels, and permutation of
// the declarations. Whether a renaming is admissible (no capture, freshness respected) is
// decided by the caller with the reference typechecker and semantics.

// renameInDecl renames every occurrence (binder or use, parameter, explicit provider) of the
// channel name from to to inside one declaration.
func renameInDecl(d *ast.Decl, from, to string) {
	for i := range d.Params {
		if d.Params[i].Name == from {
			d.Params[i].Name = to
		}
	}
	if d.Explicit == from {
		d.Explicit = to
	}
	r := func(n *ast.Nm) {
		if !n.Self && n.S == from {
			n.S = to
		}
	}
	d.Body.Walk(func(t *ast.Term) {
		r(&t.X)
		r(&t.Y)
		r(&t.Z)
		for i := range t.Args {
			r(&t.Args[i])
		}
		for i := range t.Brs {
			r(&t.Brs[i].Payload)
		}
	})
}

// boundNames lists the names bound inside a declaration (parameters, explicit provider, binders).
func BoundNames(d *ast.Decl) []string { return boundNames(d) }

func boundNames(d *ast.Decl) []string {
	seen := map[string]bool{}
	var out []string
	add := func(s string) {
		if s != "" && !seen[s] {
			seen[s] = true
			out = append(out, s)
		}
	}
	for _, p := range d.Params {
		add(p.Name)
	}
	add(d.Explicit)
	d.Body.Walk(func(t *ast.Term) {
		switch t.Kind {
		case ast.TRecv, ast.TSplit:
			if !t.X.Self {
				add(t.X.S)
			}
			if !t.Y.Self {
				add(t.Y.S)
			}
		case ast.TShift, ast.TNew:
			if !t.X.Self {
				add(t.X.S)
			}
		case ast.TCase:
			for _, b := range t.Brs {
				if !b.Payload.Self {
					add(b.Payload.S)
				}
			}
		}
	})
	return out
}

// RenameStep is one candidate renaming.
type RenameStep struct {
	Kind     string // "channel" | "function" | "type" | "label" | "provider"
	Decl     int    // channel: index of the declaration
	From, To string
	Cross    bool // the new name coincides with a name used in another declaration / namespace
}

func (s RenameStep) String() string {
	return fmt.Sprintf("%s %s -> %s", s.Kind, s.From, s.To)
}

// Apply performs the step on p (in place).
func (s RenameStep) Apply(p *ast.Program) {
	switch s.Kind {
	case "channel":
		renameInDecl(p.Decls[s.Decl], s.From, s.To)
	case "provider":
		// a top-level process name: its declaration and every use in other process bodies
		for _, d := range p.Decls {
			if d.Kind == ast.DPrc {
				for i := range d.Providers {
					if d.Providers[i] == s.From {
						d.Providers[i] = s.To
					}
				}
				renameFree(d.Body, s.From, s.To)
			}
		}
	case "function":
		for _, d := range p.Decls {
			if (d.Kind == ast.DFun || d.Kind == ast.DExec) && d.Name == s.From {
				d.Name = s.To
			}
			if d.Body != nil {
				d.Body.Walk(func(t *ast.Term) {
					if t.Kind == ast.TCall && t.Fn == s.From {
						t.Fn = s.To
					}
				})
			}
		}
	case "type":
		ren := func(t *ast.Ty) {
			t.Walk(func(n *ast.Ty) {
				if n.K == ast.KName && n.Name == s.From {
					n.Name = s.To
				}
			})
		}
		for _, d := range p.Decls {
			if d.Kind == ast.DType && d.Name == s.From {
				d.Name = s.To
			}
			if d.Ty != nil {
				ren(d.Ty)
			}
			for _, pa := range d.Params {
				if pa.Ty != nil {
					ren(pa.Ty)
				}
			}
			if d.Body != nil {
				d.Body.Walk(func(t *ast.Term) {
					if t.Ann != nil {
						ren(t.Ann)
					}
				})
			}
		}
	case "label":
		// labels of choice types and of select/case terms (print labels are handled separately)
		ren := func(t *ast.Ty) {
			t.Walk(func(n *ast.Ty) {
				for i := range n.Brs {
					if n.Brs[i].L == s.From {
						n.Brs[i].L = s.To
					}
				}
			})
		}
		for _, d := range p.Decls {
			if d.Ty != nil {
				ren(d.Ty)
			}
			for _, pa := range d.Params {
				if pa.Ty != nil {
					ren(pa.Ty)
				}
			}
			if d.Body != nil {
				d.Body.Walk(func(t *ast.Term) {
					if t.Ann != nil {
						ren(t.Ann)
					}
					if t.Kind == ast.TSel && t.Label == s.From {
						t.Label = s.To
					}
					for i := range t.Brs {
						if t.Brs[i].Label == s.From {
							t.Brs[i].Label = s.To
						}
					}
				})
			}
		}
	case "print":
		for _, d := range p.Decls {
			if d.Body != nil {
				d.Body.Walk(func(t *ast.Term) {
					if t.Kind == ast.TPrint && t.Label == s.From {
						t.Label = s.To
					}
				})
			}
		}
	}
}

// renameFree renames the free occurrences of a top-level name in a process body (occurrences
// under a binder of the same name are left alone).
func renameFree(t *ast.Term, from, to string) {
	if t == nil {
		return
	}
	r := func(n *ast.Nm) {
		if !n.Self && n.S == from {
			n.S = to
		}
	}
	binds := func(ns ...ast.Nm) bool {
		for _, n := range ns {
			if !n.Self && n.S == from {
				return true
			}
		}
		return false
	}
	switch t.Kind {
	case ast.TSend:
		r(&t.X)
		r(&t.Y)
		r(&t.Z)
	case ast.TRecv, ast.TSplit:
		r(&t.Z)
		if !binds(t.X, t.Y) {
			renameFree(t.K, from, to)
		}
	case ast.TSel, ast.TCast, ast.TFwd:
		r(&t.X)
		r(&t.Y)
	case ast.TCase:
		r(&t.X)
		for i := range t.Brs {
			if !binds(t.Brs[i].Payload) {
				renameFree(t.Brs[i].K, from, to)
			}
		}
	case ast.TNew:
		renameFree(t.Body, from, to)
		if !binds(t.X) {
			renameFree(t.K, from, to)
		}
	case ast.TCall:
		for i := range t.Args {
			r(&t.Args[i])
		}
	case ast.TClose:
		r(&t.X)
	case ast.TWait, ast.TDrop:
		r(&t.X)
		renameFree(t.K, from, to)
	case ast.TShift:
		r(&t.Z)
		if !binds(t.X) {
			renameFree(t.K, from, to)
		}
	case ast.TPrint:
		renameFree(t.K, from, to)
	}
}

// Candidates proposes renaming steps for p: mode "reuse" prefers names that already occur
// elsewhere (other declarations, callee parameters, function/type/label names), "random" draws
// arbitrary identifiers.
func (d D) Candidates(p *ast.Program, mode string, n int) []RenameStep {
	var pool []string // every identifier of the program
	seen := map[string]bool{}
	add := func(s string) {
		if s != "" && !seen[s] && !ast.Reserved(s) {
			seen[s] = true
			pool = append(pool, s)
		}
	}
	perDecl := map[int][]string{}
	var funs, tys, labels, provs, prints []string
	lseen := map[string]bool{}
	for i, dc := range p.Decls {
		switch dc.Kind {
		case ast.DFun:
			funs = append(funs, dc.Name)
			add(dc.Name)
		case ast.DType:
			tys = append(tys, dc.Name)
			add(dc.Name)
		case ast.DPrc:
			provs = append(provs, dc.Providers...)
			for _, n := range dc.Providers {
				add(n)
			}
		}
		if dc.Body != nil {
			perDecl[i] = boundNames(dc)
			for _, n := range perDecl[i] {
				add(n)
			}
			dc.Body.Walk(func(t *ast.Term) {
				if t.Kind == ast.TPrint && !lseen["p:"+t.Label] {
					lseen["p:"+t.Label] = true
					prints = append(prints, t.Label)
				}
				if t.Kind == ast.TSel && !lseen[t.Label] {
					lseen[t.Label] = true
					labels = append(labels, t.Label)
				}
				for _, b := range t.Brs {
					if !lseen[b.Label] {
						lseen[b.Label] = true
						labels = append(labels, b.Label)
					}
				}
			})
		}
		if dc.Ty != nil {
			dc.Ty.Walk(func(n *ast.Ty) {
				for _, b := range n.Brs {
					if !lseen[b.L] {
						lseen[b.L] = true
						labels = append(labels, b.L)
					}
				}
			})
		}
	}
	for _, l := range labels {
		add(l)
	}
	sort.Strings(pool)
	freshName := func() string {
		for {
			s := fmt.Sprintf("%s%d", d.Of([]string{"k", "u", "z", "q", "t", "e"}, "stem"), d.Int(0, 99, "num"))
			if !seen[s] {
				seen[s] = true
				return s
			}
		}
	}
	newName := func() (string, bool) {
		if mode == "reuse" && len(pool) > 0 && d.Likely(85, "reuse") {
			return pool[d.Pick(len(pool), "poolname")], true
		}
		return freshName(), false
	}
	// names bound inside the functions a declaration calls: the caller/callee coincidences
	calleeNames := map[int][]string{}
	argNames := map[int][]string{} // bound names of a declaration that it passes to a function
	byName := map[string]int{}
	for i, dc := range p.Decls {
		if dc.Kind == ast.DFun {
			byName[dc.Name] = i
		}
	}
	for i, dc := range p.Decls {
		if dc.Body == nil {
			continue
		}
		seenFn := map[string]bool{}
		bound := map[string]bool{}
		for _, n := range perDecl[i] {
			bound[n] = true
		}
		dc.Body.Walk(func(t *ast.Term) {
			if t.Kind == ast.TCall {
				for _, a := range t.Args {
					if !a.Self && bound[a.S] {
						argNames[i] = append(argNames[i], a.S)
					}
				}
			}
			if t.Kind == ast.TCall && !seenFn[t.Fn] {
				seenFn[t.Fn] = true
				if j, ok := byName[t.Fn]; ok {
					calleeNames[i] = append(calleeNames[i], perDeclNames(p.Decls[j])...)
				}
			}
		})
	}
	var steps []RenameStep
	var declIdx []int
	for i := range perDecl {
		if len(perDecl[i]) > 0 {
			declIdx = append(declIdx, i)
		}
	}
	sort.Ints(declIdx)
	var callerIdx []int // declarations that pass a bound name to a function
	for _, i := range declIdx {
		if len(argNames[i]) > 0 && len(calleeNames[i]) > 0 {
			callerIdx = append(callerIdx, i)
		}
	}
	for k := 0; k < n; k++ {
		switch x := d.Pick(10, "what"); {
		case x < 6 && len(declIdx) > 0:
			di := declIdx[d.Pick(len(declIdx), "decl")]
			if mode == "reuse" && len(callerIdx) > 0 && d.Likely(50, "callerdecl") {
				di = callerIdx[d.Pick(len(callerIdx), "caller")]
			}
			from := perDecl[di][d.Pick(len(perDecl[di]), "from")]
			to, cross := newName()
			if mode == "reuse" && len(calleeNames[di]) > 0 && d.Likely(45, "calleename") {
				to, cross = calleeNames[di][d.Pick(len(calleeNames[di]), "callee")], true
				if len(argNames[di]) > 0 && d.Likely(60, "argname") {
					// a name handed to the callee meets a name the callee binds
					from = argNames[di][d.Pick(len(argNames[di]), "arg")]
				}
			}
			if to != from {
				steps = append(steps, RenameStep{Kind: "channel", Decl: di, From: from, To: to, Cross: cross})
			}
		case x == 6 && len(funs) > 0:
			to, cross := newName()
			steps = append(steps, RenameStep{Kind: "function", From: funs[d.Pick(len(funs), "fun")], To: to, Cross: cross})
		case x == 7 && len(tys) > 0:
			to, cross := newName()
			steps = append(steps, RenameStep{Kind: "type", From: tys[d.Pick(len(tys), "ty")], To: to, Cross: cross})
		case x == 8 && len(labels) > 0:
			to, cross := newName()
			steps = append(steps, RenameStep{Kind: "label", From: labels[d.Pick(len(labels), "lab")], To: to, Cross: cross})
		case x == 9 && len(provs) > 0:
			to, cross := newName()
			if d.Bool("printlabel") && len(prints) > 0 {
				steps = append(steps, RenameStep{Kind: "print", From: prints[d.Pick(len(prints), "print")], To: to, Cross: cross})
			} else {
				steps = append(steps, RenameStep{Kind: "provider", From: provs[d.Pick(len(provs), "prov")], To: to, Cross: cross})
			}
		}
	}
	return steps
}

// Permute shuffles the declarations, keeping the relative order of exec declarations (they are
// numbered in order of appearance).
func (d D) Permute(p *ast.Program) *ast.Program {
	q := p.Clone()
	n := len(q.Decls)
	idx := make([]int, n)
	for i := range idx {
		idx[i] = i
	}
	for i := n - 1; i > 0; i-- {
		j := d.Pick(i+1, "perm")
		idx[i], idx[j] = idx[j], idx[i]
	}
	out := make([]*ast.Decl, n)
	for i, j := range idx {
		out[i] = q.Decls[j]
	}
	// restore the relative order of exec declarations
	var execs []*ast.Decl
	for _, dc := range q.Decls {
		if dc.Kind == ast.DExec {
			execs = append(execs, dc)
		}
	}
	k := 0
	for i, dc := range out {
		if dc.Kind == ast.DExec {
			out[i] = execs[k]
			k++
		}
	}
	q.Decls = out
	return q
}


func perDeclNames(d *ast.Decl) []string { return boundNames(d) }
