package gen

import (
	"fmt"

	"verif/internal/ast"
	"verif/internal/refcheck"
)

// termRef is a position in a program where a term sits, with a setter.
type termRef struct {
	Decl *ast.Decl
	T    *ast.Term
	Set  func(*ast.Term)
	InCutBody bool
	Scope     []string // names bound on the path from the declaration to this term (consumed or not)
	Alias     string   // name under which the provider is currently known (bound by the last right rule), "" if none
}

func collectTerms(p *ast.Program) []termRef {
	var out []termRef
	var walk func(d *ast.Decl, t *ast.Term, set func(*ast.Term), inBody bool, scope []string, alias string)
	walk = func(d *ast.Decl, t *ast.Term, set func(*ast.Term), inBody bool, scope []string, alias string) {
		if t == nil {
			return
		}
		out = append(out, termRef{d, t, set, inBody, scope, alias})
		isProv := func(n ast.Nm) bool {
			return n.Self || (alias != "" && n.S == alias) || (!inBody && d.Explicit != "" && n.S == d.Explicit)
		}
		ext := func(ns ...ast.Nm) []string {
			sc := append([]string{}, scope...)
			for _, n := range ns {
				if !n.Self && n.S != "" {
					sc = append(sc, n.S)
				}
			}
			return sc
		}
		if t.Body != nil {
			walk(d, t.Body, func(n *ast.Term) { t.Body = n }, true, scope, "")
		}
		if t.K != nil {
			sc, al := scope, alias
			switch t.Kind {
			case ast.TRecv:
				sc = ext(t.X, t.Y)
				if isProv(t.Z) {
					al = t.Y.S
				}
			case ast.TSplit:
				sc = ext(t.X, t.Y)
			case ast.TShift:
				sc = ext(t.X)
				if isProv(t.Z) {
					al = t.X.S
				}
			case ast.TNew:
				sc = ext(t.X)
			}
			walk(d, t.K, func(n *ast.Term) { t.K = n }, inBody, sc, al)
		}
		for i := range t.Brs {
			i := i
			al := alias
			if t.Kind == ast.TCase && isProv(t.X) {
				al = t.Brs[i].Payload.S
			}
			walk(d, t.Brs[i].K, func(n *ast.Term) { t.Brs[i].K = n }, inBody, ext(t.Brs[i].Payload), al)
		}
	}
	for _, d := range p.Decls {
		d := d
		if d.Body != nil {
			var sc []string
			for _, pa := range d.Params {
				sc = append(sc, pa.Name)
			}
			if d.Kind == ast.DPrc {
				sc = append(sc, refFree(d.Body)...)
			}
			walk(d, d.Body, func(n *ast.Term) { d.Body = n }, false, sc, "")
		}
	}
	return out
}

// namesIn lists the channel names occurring in a declaration (binders and uses).
func namesIn(d *ast.Decl) []string {
	seen := map[string]bool{}
	var out []string
	add := func(n ast.Nm) {
		if !n.Self && n.S != "" && !seen[n.S] {
			seen[n.S] = true
			out = append(out, n.S)
		}
	}
	for _, pa := range d.Params {
		add(ast.N(pa.Name))
	}
	d.Body.Walk(func(t *ast.Term) {
		add(t.X)
		add(t.Y)
		add(t.Z)
		for _, a := range t.Args {
			add(a)
		}
		for _, b := range t.Brs {
			add(b.Payload)
		}
	})
	return out
}

// refFree lists the free names of a process body (the other processes it uses).
func refFree(t *ast.Term) []string {
	bound := map[string]bool{}
	seen := map[string]bool{}
	var out []string
	t.Walk(func(n *ast.Term) {
		switch n.Kind {
		case ast.TRecv, ast.TSplit:
			bound[n.X.S], bound[n.Y.S] = true, true
		case ast.TShift, ast.TNew:
			bound[n.X.S] = true
		case ast.TCase:
			for _, b := range n.Brs {
				bound[b.Payload.S] = true
			}
		}
	})
	use := func(n ast.Nm) {
		if !n.Self && n.S != "" && !bound[n.S] && !seen[n.S] {
			seen[n.S] = true
			out = append(out, n.S)
		}
	}
	t.Walk(func(n *ast.Term) {
		use(n.X)
		use(n.Y)
		use(n.Z)
		for _, a := range n.Args {
			use(a)
		}
	})
	return out
}

var MutationKinds = []string{
	"binder-to-scope", "case-payload-to-scope", "case-payload-to-scope", "binder-to-alias", "binder-to-alias", "alias-to-live", "alias-to-live", "alias-to-live", "cut-reuse-self-as-name", "drop-statement", "dup-statement", "rename-binder", "rename-use", "wait-to-drop", "insert-drop", "insert-split",
	"extra-provider", "swap-send-args", "wrong-label", "drop-branch", "dup-branch", "extra-branch", "arity-minus", "arity-plus",
	"wrong-callee", "self-misplaced", "ann-inequivalent", "ann-mode", "param-mode", "ret-mode", "prc-mode", "ann-equivalent",
	"swap-statements", "cut-body-continuation", "remove-ann", "polarity", "self-arg", "shift-words", "typedef-change", "toplevel-cycle", "merge-binders", "merge-binders", "dup-function", "shadow-and-forget", "shadow-and-forget",
}

// Mutate applies one single-site edit to a clone of p. ok=false when the chosen operator has
// no site in this program.
func (d D) Mutate(p *ast.Program, kind string) (*ast.Program, string, bool) {
	q := p.Clone()
	terms := collectTerms(q)
	pick := func(pred func(termRef) bool) (termRef, bool) {
		var c []termRef
		for _, r := range terms {
			if pred(r) {
				c = append(c, r)
			}
		}
		if len(c) == 0 {
			return termRef{}, false
		}
		return c[d.Pick(len(c), "site")], true
	}
	isStmt := func(k ast.TermKind) bool {
		return k == ast.TWait || k == ast.TDrop || k == ast.TPrint
	}
	switch kind {
	case "merge-binders": // <x, y> <- recv/split z becomes <x, x>, and the statement that used y up goes
		type site struct {
			r    termRef
			stmt *ast.Term // the wait/drop in the continuation chain that uses one of the binders
			prev *ast.Term
		}
		var cs []site
		for _, r := range terms {
			if (r.T.Kind != ast.TRecv && r.T.Kind != ast.TSplit) || r.T.X.Self || r.T.Y.Self || r.T.X.S == r.T.Y.S {
				continue
			}
			prev := r.T
			for k := r.T.K; k != nil; prev, k = k, k.K {
				if (k.Kind == ast.TWait || k.Kind == ast.TDrop) && !k.X.Self && (k.X.S == r.T.X.S || k.X.S == r.T.Y.S) {
					cs = append(cs, site{r, k, prev})
					break
				}
				if k.Kind != ast.TWait && k.Kind != ast.TDrop && k.Kind != ast.TPrint {
					break
				}
			}
		}
		if len(cs) == 0 {
			return nil, "", false
		}
		c := cs[d.Pick(len(cs), "site")]
		gone, keep := c.stmt.X.S, c.r.T.X.S
		if gone == keep {
			keep = c.r.T.Y.S
		}
		c.prev.K = c.stmt.K // remove the statement
		if c.r.T.X.S == gone {
			c.r.T.X.S = keep
		} else {
			c.r.T.Y.S = keep
		}
		_ = gone
		return q, fmt.Sprintf("both binders of `%s` in %s are now called %s, and the statement that used %s up is gone", ast.TermKindName[c.r.T.Kind], declName(c.r.Decl), keep, gone), true
	case "toplevel-cycle": // a process that nobody uses is waited for by a process it (indirectly) uses
		user := map[string]*ast.Decl{} // top-level name -> the process using it
		var prcs []*ast.Decl
		for _, dc := range q.Decls {
			if dc.Kind == ast.DPrc && dc.Body != nil {
				prcs = append(prcs, dc)
			}
		}
		provOf := map[string]*ast.Decl{}
		for _, dc := range prcs {
			for _, n := range dc.Providers {
				provOf[n] = dc
			}
		}
		for _, dc := range prcs {
			for _, n := range refcheck.FreeNames(dc.Body) {
				if provOf[n] != nil && provOf[n] != dc {
					user[n] = dc
				}
			}
		}
		type cand struct {
			top, dep *ast.Decl
		}
		var cs []cand
		for _, top := range prcs {
			if len(top.Providers) != 1 || user[top.Providers[0]] != nil || top.Ty == nil || top.Ty.K != ast.KOne {
				continue
			}
			// everything top transitively uses
			seen := map[*ast.Decl]bool{top: true}
			work := []*ast.Decl{top}
			for len(work) > 0 {
				cur := work[0]
				work = work[1:]
				for _, n := range refcheck.FreeNames(cur.Body) {
					if dp := provOf[n]; dp != nil && !seen[dp] {
						seen[dp] = true
						work = append(work, dp)
						cs = append(cs, cand{top, dp})
					}
				}
			}
		}
		if len(cs) == 0 {
			return nil, "", false
		}
		c := cs[d.Pick(len(cs), "site")]
		c.dep.Body = &ast.Term{Kind: ast.TWait, X: ast.N(c.top.Providers[0]), K: c.dep.Body}
		return q, fmt.Sprintf("prc[%s] now waits for prc[%s], which (indirectly) uses it", c.dep.Providers[0], c.top.Providers[0]), true
	case "drop-statement": // the channel is then never consumed
		// sites are grouped by the form the statement's continuation ends in (close, fwd, send,
		// select, cast, call, case…) and the group is drawn first: every rule that must notice the
		// left-over name gets its share, however rare its form is
		groups := map[ast.TermKind][]termRef{}
		var kindsSeen []ast.TermKind
		for _, r := range terms {
			if r.T.Kind != ast.TWait && r.T.Kind != ast.TDrop {
				continue
			}
			e := r.T
			for e.K != nil {
				e = e.K
			}
			if _, ok := groups[e.Kind]; !ok {
				kindsSeen = append(kindsSeen, e.Kind)
			}
			groups[e.Kind] = append(groups[e.Kind], r)
		}
		if len(kindsSeen) == 0 {
			return nil, "", false
		}
		grp := groups[kindsSeen[d.Pick(len(kindsSeen), "terminal")]]
		r, ok := grp[d.Pick(len(grp), "site")], true
		if !ok {
			return nil, "", false
		}
		r.Set(r.T.K)
		return q, fmt.Sprintf("removed `%s %s;` in %s", ast.TermKindName[r.T.Kind], r.T.X, declName(r.Decl)), true
	case "dup-statement":
		r, ok := pick(func(r termRef) bool { return r.T.Kind == ast.TWait || r.T.Kind == ast.TDrop })
		if !ok {
			return nil, "", false
		}
		c := *r.T
		c.K = r.T
		r.Set(&c)
		return q, fmt.Sprintf("duplicated `%s %s;` in %s", ast.TermKindName[r.T.Kind], r.T.X, declName(r.Decl)), true
	case "rename-binder": // a binder takes the name of another channel of the declaration
		r, ok := pick(func(r termRef) bool {
			switch r.T.Kind {
			case ast.TRecv, ast.TSplit, ast.TShift, ast.TNew, ast.TCase:
				return true
			}
			return false
		})
		if !ok {
			return nil, "", false
		}
		ns := namesIn(r.Decl)
		if len(ns) < 2 {
			return nil, "", false
		}
		to := ns[d.Pick(len(ns), "to")]
		var from string
		switch r.T.Kind {
		case ast.TRecv, ast.TSplit:
			if d.Bool("second") {
				from, r.T.Y.S = r.T.Y.S, to
			} else {
				from, r.T.X.S = r.T.X.S, to
			}
		case ast.TShift, ast.TNew:
			from, r.T.X.S = r.T.X.S, to
		case ast.TCase:
			if len(r.T.Brs) == 0 {
				return nil, "", false
			}
			i := d.Pick(len(r.T.Brs), "br")
			from, r.T.Brs[i].Payload.S = r.T.Brs[i].Payload.S, to
		}
		if from == to {
			return nil, "", false
		}
		return q, fmt.Sprintf("binder %s renamed to %s (uses unchanged) in %s", from, to, declName(r.Decl)), true
	case "shadow-and-forget": // a binder takes the name of a live channel, and the statement that used that channel up goes
		// two edits that belong together: after them every name is still used exactly once as far as
		// spellings go, but one channel has been silently discarded by the binder that hides it
		type site struct {
			r    termRef
			slot *ast.Nm   // the binder to respell
			stmt *ast.Term // `wait to` / `drop to` below the binder
			prev *ast.Term
			brk  int // branch index for case payloads (-1 otherwise)
		}
		var cs []site
		for _, r := range terms {
			if len(r.Scope) == 0 {
				continue
			}
			inScope := map[string]bool{}
			for _, n := range r.Scope {
				inScope[n] = true
			}
			// a removable use of an earlier name on the straight-line continuation below the binder
			find := func(start *ast.Term, head *ast.Term) (stmt, prev *ast.Term) {
				prev = head
				for k := start; k != nil; prev, k = k, k.K {
					if (k.Kind == ast.TWait || k.Kind == ast.TDrop) && !k.X.Self && inScope[k.X.S] {
						return k, prev
					}
					if k.Kind != ast.TWait && k.Kind != ast.TDrop && k.Kind != ast.TPrint {
						return nil, nil
					}
				}
				return nil, nil
			}
			add := func(slot *ast.Nm, start, head *ast.Term, brk int) {
				if slot.Self {
					return
				}
				if st, pv := find(start, head); st != nil && pv != head {
					// (the statement must not be the binder's direct continuation slot of a branch head,
					// which has no K to patch: pv == head means prev is the binder term itself - fine for
					// K-linked forms, handled below)
					cs = append(cs, site{r, slot, st, pv, brk})
				} else if st != nil && brk < 0 {
					cs = append(cs, site{r, slot, st, pv, brk})
				}
			}
			switch r.T.Kind {
			case ast.TRecv, ast.TSplit:
				add(&r.T.X, r.T.K, r.T, -1)
				add(&r.T.Y, r.T.K, r.T, -1)
			case ast.TShift, ast.TNew:
				add(&r.T.X, r.T.K, r.T, -1)
			case ast.TCase:
				for i := range r.T.Brs {
					if k := r.T.Brs[i].K; k != nil {
						// the head of a branch cannot be unlinked through a K field: look below it
						if st, pv := find(k.K, k); st != nil {
							cs = append(cs, site{r, &r.T.Brs[i].Payload, st, pv, i})
						}
					}
				}
			}
		}
		if len(cs) == 0 {
			return nil, "", false
		}
		c := cs[d.Pick(len(cs), "site")]
		to, from := c.stmt.X.S, c.slot.S
		if to == from {
			return nil, "", false
		}
		c.prev.K = c.stmt.K // the use of `to` is gone
		c.slot.S = to
		if c.brk >= 0 {
			renameUses(&ast.Term{K: c.r.T.Brs[c.brk].K}, from, to)
		} else {
			renameUses(c.r.T, from, to)
		}
		return q, fmt.Sprintf("binder %s of a %s now hides the live channel %s, whose `%s %s;` is gone (%s)", from, ast.TermKindName[c.r.T.Kind], to, ast.TermKindName[c.stmt.Kind], to, declName(c.r.Decl)), true
	case "binder-to-scope", "case-payload-to-scope": // a binder takes the name of a channel bound earlier on the same path
		r, ok := pick(func(r termRef) bool {
			if len(r.Scope) == 0 {
				return false
			}
			switch r.T.Kind {
			case ast.TRecv, ast.TSplit, ast.TShift, ast.TNew:
				return kind == "binder-to-scope"
			case ast.TCase:
				return len(r.T.Brs) > 0
			}
			return false
		})
		if !ok {
			return nil, "", false
		}
		to := r.Scope[d.Pick(len(r.Scope), "to")]
		var from string
		switch r.T.Kind {
		case ast.TRecv, ast.TSplit:
			if d.Bool("second") {
				from, r.T.Y.S = r.T.Y.S, to
			} else {
				from, r.T.X.S = r.T.X.S, to
			}
		case ast.TShift, ast.TNew:
			from, r.T.X.S = r.T.X.S, to
		case ast.TCase:
			i := d.Pick(len(r.T.Brs), "br")
			from, r.T.Brs[i].Payload.S = r.T.Brs[i].Payload.S, to
		}
		if from == to {
			return nil, "", false
		}
		// rename the uses of the binder in its scope too, so that only the coincidence is new
		if d.Chance(60, "consistent") {
			renameUses(r.T, from, to)
		}
		return q, fmt.Sprintf("binder %s of a %s renamed to the earlier name %s in %s", from, ast.TermKindName[r.T.Kind], to, declName(r.Decl)), true
	case "binder-to-alias": // a client-side binder takes the name under which the provider is currently known
		r, ok := pick(func(r termRef) bool {
			if r.Alias == "" {
				return false
			}
			switch r.T.Kind {
			case ast.TRecv, ast.TShift:
				return !r.T.Z.Self && r.T.Z.S != r.Alias
			case ast.TCase:
				return len(r.T.Brs) > 0 && !r.T.X.Self && r.T.X.S != r.Alias
			}
			return false // cuts and splits: the reference leaves the verdict open there
		})
		if !ok {
			return nil, "", false
		}
		to := r.Alias
		var from string
		switch r.T.Kind {
		case ast.TRecv, ast.TSplit:
			if d.Bool("second") {
				from, r.T.Y.S = r.T.Y.S, to
			} else {
				from, r.T.X.S = r.T.X.S, to
			}
		case ast.TShift, ast.TNew:
			from, r.T.X.S = r.T.X.S, to
		case ast.TCase:
			i := d.Pick(len(r.T.Brs), "br")
			from, r.T.Brs[i].Payload.S = r.T.Brs[i].Payload.S, to
		}
		if from == to {
			return nil, "", false
		}
		// the uses of the binder keep referring to it: rename them as well (the alias' own uses now coincide)
		renameUses(r.T, from, to)
		return q, fmt.Sprintf("binder %s of a %s renamed to the provider's alias %s in %s", from, ast.TermKindName[r.T.Kind], to, declName(r.Decl)), true
	case "alias-to-live": // the name a right rule binds for the provider takes the name of a channel bound earlier
		liveAt := func(r termRef) []string {
			var live []string
			used := map[string]bool{}
			(&ast.Term{K: r.T.K, Brs: r.T.Brs}).Walk(func(x *ast.Term) {
				for _, n := range []ast.Nm{x.X, x.Y, x.Z} {
					if !n.Self {
						used[n.S] = true
					}
				}
				for _, a := range x.Args {
					used[a.S] = true
				}
			})
			for _, n := range r.Scope {
				if used[n] {
					live = append(live, n)
				}
			}
			return live
		}
		isSite := func(r termRef) bool {
			if len(r.Scope) == 0 {
				return false
			}
			isProv := r.T.Z.Self || (r.Alias != "" && r.T.Z.S == r.Alias)
			switch r.T.Kind {
			case ast.TRecv, ast.TShift:
				return isProv
			case ast.TCase:
				return len(r.T.Brs) > 0 && (r.T.X.Self || (r.Alias != "" && r.T.X.S == r.Alias))
			}
			return false
		}
		// sites where an earlier name is still used by the continuation come first: that channel is
		// certainly owed a use, and the renamed provider then stands next to it
		r, ok := pick(func(r termRef) bool { return isSite(r) && len(liveAt(r)) > 0 })
		if !ok || d.Chance(10, "anysite") {
			r, ok = pick(isSite)
		}
		if !ok {
			return nil, "", false
		}
		to := r.Scope[d.Pick(len(r.Scope), "to")]
		if live := liveAt(r); len(live) > 0 && d.Likely(80, "liveto") {
			to = live[d.Pick(len(live), "livewhich")]
		}
		var from string
		switch r.T.Kind {
		case ast.TRecv:
			from, r.T.Y.S = r.T.Y.S, to
		case ast.TShift:
			from, r.T.X.S = r.T.X.S, to
		case ast.TCase:
			i := d.Pick(len(r.T.Brs), "br")
			from, r.T.Brs[i].Payload.S = r.T.Brs[i].Payload.S, to
			if from != to {
				renameUses(&ast.Term{K: r.T.Brs[i].K}, from, to)
			}
		}
		if from == to {
			return nil, "", false
		}
		if r.T.Kind != ast.TCase {
			renameUses(r.T, from, to)
		}
		// make sure the alias is actually used as the provider afterwards
		return q, fmt.Sprintf("provider alias %s bound by a %s renamed to the earlier name %s in %s", from, ast.TermKindName[r.T.Kind], to, declName(r.Decl)), true
	case "cut-reuse-self-as-name": // x : T <- new B re-using a live name, with B naming its provider x instead of self
		r, ok := pick(func(r termRef) bool {
			return r.T.Kind == ast.TNew && len(r.Scope) > 0 && r.T.Body != nil && !r.T.Body.HasContinuation() && r.T.Body.Kind != ast.TCall
		})
		if !ok {
			return nil, "", false
		}
		to := r.Scope[d.Pick(len(r.Scope), "to")]
		from := r.T.X.S
		if from == to {
			return nil, "", false
		}
		r.T.X.S = to
		renameUses(r.T, from, to)
		b := r.T.Body
		self2 := func(n *ast.Nm) {
			if n.Self {
				*n = ast.Nm{S: to, Pol: n.Pol}
			}
		}
		self2(&b.X)
		self2(&b.Y)
		self2(&b.Z)
		return q, fmt.Sprintf("cut %s re-uses the earlier name %s and its body calls its provider %s", from, to, to), true
	case "rename-use": // one use site refers to another channel
		r, ok := pick(func(r termRef) bool { return !r.T.X.Self && r.T.X.S != "" && r.T.Kind != ast.TNew && r.T.Kind != ast.TRecv && r.T.Kind != ast.TSplit && r.T.Kind != ast.TShift })
		if !ok {
			return nil, "", false
		}
		ns := namesIn(r.Decl)
		to := ns[d.Pick(len(ns), "to")]
		if to == r.T.X.S {
			return nil, "", false
		}
		from := r.T.X.S
		r.T.X.S = to
		return q, fmt.Sprintf("use of %s replaced by %s in %s", from, to, declName(r.Decl)), true
	case "wait-to-drop":
		r, ok := pick(func(r termRef) bool { return r.T.Kind == ast.TWait })
		if !ok {
			return nil, "", false
		}
		r.T.Kind = ast.TDrop
		return q, fmt.Sprintf("`wait %s` became `drop %s` in %s", r.T.X, r.T.X, declName(r.Decl)), true
	case "insert-drop", "insert-split": // structural rule on some channel of the declaration
		r, ok := pick(func(r termRef) bool { return !r.InCutBody })
		if !ok {
			return nil, "", false
		}
		ns := namesIn(r.Decl)
		if len(ns) == 0 {
			return nil, "", false
		}
		x := ns[d.Pick(len(ns), "x")]
		var n *ast.Term
		if kind == "insert-drop" {
			n = &ast.Term{Kind: ast.TDrop, X: ast.N(x), K: r.T}
		} else {
			n = &ast.Term{Kind: ast.TSplit, X: ast.N(x + "'"), Y: ast.N(x), Z: ast.N(x), K: r.T}
		}
		r.Set(n)
		return q, fmt.Sprintf("inserted %s of %s in %s", kind[7:], x, declName(r.Decl)), true
	case "dup-function": // a second definition under the same name, with one more parameter or the same ones
		var idx []int
		for i, dc := range q.Decls {
			if dc.Kind == ast.DFun && dc.Body != nil && dc.Ty != nil {
				idx = append(idx, i)
			}
		}
		if len(idx) == 0 {
			return nil, "", false
		}
		i := idx[d.Pick(len(idx), "fun")]
		orig := q.Decls[i]
		cp := &ast.Decl{Kind: ast.DFun, Name: orig.Name, Ty: orig.Ty.Clone(), Explicit: orig.Explicit, Body: orig.Body.Clone()}
		for _, pa := range orig.Params {
			cp.Params = append(cp.Params, ast.Param{Name: pa.Name, Ty: pa.Ty.Clone()})
		}
		what := "the same parameters"
		if d.Likely(75, "otherarity") {
			// one more parameter of type 1 at the provider's mode, waited for first: well typed on its own
			m := orig.Ty.M
			one := ast.One(m)
			one.Ann = m.String()
			cp.Params = append(cp.Params, ast.Param{Name: "zz'", Ty: one})
			cp.Body = &ast.Term{Kind: ast.TWait, X: ast.N("zz'"), K: cp.Body}
			what = "one more parameter"
		}
		pos := i // before the original: a checker that keeps the last definition per name sees the original
		if d.Bool("after") {
			pos = i + 1
		}
		q.Decls = append(q.Decls[:pos], append([]*ast.Decl{cp}, q.Decls[pos:]...)...)
		return q, fmt.Sprintf("function %s defined a second time with %s", orig.Name, what), true
	case "extra-provider":
		var c []*ast.Decl
		for _, dc := range q.Decls {
			if dc.Kind == ast.DPrc {
				c = append(c, dc)
			}
		}
		if len(c) == 0 {
			return nil, "", false
		}
		// processes whose type is just a name (its mode comes from the definition) count three times
		var w []*ast.Decl
		for _, dc := range c {
			w = append(w, dc)
			if dc.Ty != nil && dc.Ty.K == ast.KName {
				w = append(w, dc, dc)
			}
		}
		dc := w[d.Pick(len(w), "prc")]
		dc.Providers = append(dc.Providers, dc.Providers[0]+"_2")
		note := ""
		if dc.Ty != nil && dc.Ty.K == ast.KName && dc.Ty.Ann != "" && d.Bool("bareName") {
			dc.Ty.Ann = "" // the definition fixes the mode: the written annotation is redundant
			note = " (and its redundant mode annotation removed)"
		}
		return q, "added a second provider name to prc[" + dc.Providers[0] + "]" + note, true
	case "swap-send-args":
		r, ok := pick(func(r termRef) bool { return r.T.Kind == ast.TSend })
		if !ok {
			return nil, "", false
		}
		switch d.Pick(3, "which") {
		case 0:
			r.T.Y, r.T.Z = r.T.Z, r.T.Y
		case 1:
			r.T.X, r.T.Z = r.T.Z, r.T.X
		default:
			r.T.X, r.T.Y = r.T.Y, r.T.X
		}
		return q, "swapped two names of a send in " + declName(r.Decl), true
	case "wrong-label":
		r, ok := pick(func(r termRef) bool { return r.T.Kind == ast.TSel || (r.T.Kind == ast.TCase && len(r.T.Brs) > 0) })
		if !ok {
			return nil, "", false
		}
		nl := d.Of(tyLabels, "newlabel")
		if r.T.Kind == ast.TSel {
			if r.T.Label == nl {
				return nil, "", false
			}
			r.T.Label = nl
		} else {
			i := d.Pick(len(r.T.Brs), "br")
			if r.T.Brs[i].Label == nl {
				return nil, "", false
			}
			r.T.Brs[i].Label = nl
		}
		return q, "label replaced by " + nl + " in " + declName(r.Decl), true
	case "drop-branch":
		r, ok := pick(func(r termRef) bool { return r.T.Kind == ast.TCase && len(r.T.Brs) > 0 })
		if !ok {
			return nil, "", false
		}
		i := d.Pick(len(r.T.Brs), "br")
		r.T.Brs = append(r.T.Brs[:i], r.T.Brs[i+1:]...)
		return q, "removed a case branch in " + declName(r.Decl), true
	case "dup-branch", "extra-branch":
		r, ok := pick(func(r termRef) bool { return r.T.Kind == ast.TCase && len(r.T.Brs) > 0 })
		if !ok {
			return nil, "", false
		}
		b := r.T.Brs[d.Pick(len(r.T.Brs), "br")]
		nb := ast.Branch{Label: b.Label, Payload: b.Payload, K: b.K.Clone()}
		if kind == "extra-branch" {
			nb.Label = "extra"
		}
		r.T.Brs = append(r.T.Brs, nb)
		return q, kind + " in " + declName(r.Decl), true
	case "arity-minus":
		r, ok := pick(func(r termRef) bool { return r.T.Kind == ast.TCall && len(r.T.Args) > 0 })
		if !ok {
			return nil, "", false
		}
		i := d.Pick(len(r.T.Args), "arg")
		r.T.Args = append(r.T.Args[:i:i], r.T.Args[i+1:]...)
		return q, "removed an argument of " + r.T.Fn + " in " + declName(r.Decl), true
	case "arity-plus":
		r, ok := pick(func(r termRef) bool { return r.T.Kind == ast.TCall })
		if !ok {
			return nil, "", false
		}
		ns := namesIn(r.Decl)
		if len(ns) == 0 {
			return nil, "", false
		}
		r.T.Args = append(r.T.Args, ast.N(ns[d.Pick(len(ns), "extra")]))
		return q, "added an argument to " + r.T.Fn + " in " + declName(r.Decl), true
	case "wrong-callee":
		if d.Likely(50, "byconsumer") {
			// a cut `x <- new f(..)` gets another callee of the same arity, so that x arrives with another
			// type at whatever uses it. The cuts are grouped by that use (payload of a send, its
			// continuation, continuation of a select, operand of a cast, forwarded name, argument of a
			// call, subject of a case / recv / wait ...) and the group is drawn first: every rule's own
			// comparison of a found type with the expected one gets its share
			groups := map[string][]termRef{}
			var keys []string
			for _, r := range terms {
				if r.T.Kind != ast.TNew || r.T.Body == nil || r.T.Body.Kind != ast.TCall || r.T.X.Self {
					continue
				}
				x, key := r.T.X.S, ""
				for k := r.T.K; k != nil && key == ""; k = k.K {
					switch {
					case !k.X.Self && k.X.S == x:
						key = ast.TermKindName[k.Kind] + ".X"
					case !k.Y.Self && k.Y.S == x:
						key = ast.TermKindName[k.Kind] + ".Y"
					case !k.Z.Self && k.Z.S == x:
						key = ast.TermKindName[k.Kind] + ".Z"
					}
					for _, a := range k.Args {
						if key == "" && !a.Self && a.S == x {
							key = ast.TermKindName[k.Kind] + ".arg"
						}
					}
					if k.Body != nil && key == "" {
						for _, a := range k.Body.Args {
							if !a.Self && a.S == x {
								key = "new.arg"
							}
						}
						for _, n := range []ast.Nm{k.Body.X, k.Body.Y, k.Body.Z} {
							if key == "" && !n.Self && n.S == x {
								key = "new." + ast.TermKindName[k.Body.Kind]
							}
						}
					}
				}
				if key == "" {
					continue
				}
				if _, ok := groups[key]; !ok {
					keys = append(keys, key)
				}
				groups[key] = append(groups[key], r)
			}
			if len(keys) > 0 {
				key := keys[d.Pick(len(keys), "consumer")]
				r := groups[key][d.Pick(len(groups[key]), "site")]
				var same, sameMode []string
				orig := q.Fun(r.T.Body.Fn)
				for _, f := range q.Funs() {
					if f.Name != r.T.Body.Fn && len(f.Params) == len(r.T.Body.Args) {
						same = append(same, f.Name)
						if orig != nil && orig.Ty != nil && f.Ty != nil && f.Ty.M == orig.Ty.M {
							sameMode = append(sameMode, f.Name) // the type differs, the mode does not
						}
					}
				}
				if len(sameMode) > 0 && d.Likely(75, "samemode") {
					same = sameMode
				}
				if len(same) > 0 {
					f := same[d.Pick(len(same), "callee")]
					r.T.Body.Fn = f
					return q, fmt.Sprintf("cut %s (used as %s) now spawns %s in %s", r.T.X.S, key, f, declName(r.Decl)), true
				}
			}
		}
		r, ok := pick(func(r termRef) bool { return r.T.Kind == ast.TCall })
		fs := q.Funs()
		if !ok || len(fs) < 2 {
			return nil, "", false
		}
		f := fs[d.Pick(len(fs), "callee")].Name
		if d.Chance(10, "undef") {
			f = "nosuchfun"
		}
		if f == r.T.Fn {
			return nil, "", false
		}
		r.T.Fn = f
		return q, "call redirected to " + f + " in " + declName(r.Decl), true
	case "self-misplaced":
		r, ok := pick(func(r termRef) bool {
			switch r.T.Kind {
			case ast.TSend, ast.TSel, ast.TCast, ast.TClose, ast.TWait, ast.TFwd, ast.TDrop:
				return true
			}
			return false
		})
		if !ok {
			return nil, "", false
		}
		switch r.T.Kind {
		case ast.TSend:
			r.T.Y = ast.SelfNm
		case ast.TSel, ast.TCast:
			r.T.X, r.T.Y = r.T.Y, r.T.X
		case ast.TFwd:
			r.T.X, r.T.Y = r.T.Y, r.T.X
		default:
			if r.T.X.Self {
				ns := namesIn(r.Decl)
				if len(ns) == 0 {
					return nil, "", false
				}
				r.T.X = ast.N(ns[0])
			} else {
				r.T.X = ast.SelfNm
			}
		}
		return q, "self used in the wrong position in " + declName(r.Decl), true
	case "swap-statements":
		r, ok := pick(func(r termRef) bool { return isStmt(r.T.Kind) && r.T.K != nil && (isStmt(r.T.K.Kind)) })
		if !ok {
			return nil, "", false
		}
		a, b := r.T, r.T.K
		a.K = b.K
		b.K = a
		r.Set(b)
		return q, "two adjacent statements swapped in " + declName(r.Decl), true
	case "cut-body-continuation":
		r, ok := pick(func(r termRef) bool { return r.T.Kind == ast.TNew })
		if !ok {
			return nil, "", false
		}
		r.T.Body = &ast.Term{Kind: ast.TPrint, Label: "inbody", K: r.T.Body}
		return q, "cut body is no longer an axiom or a call in " + declName(r.Decl), true
	case "remove-ann":
		r, ok := pick(func(r termRef) bool { return r.T.Kind == ast.TNew && r.T.Ann != nil })
		if !ok {
			return nil, "", false
		}
		r.T.Ann = nil
		return q, "removed the type annotation of a cut in " + declName(r.Decl), true
	case "polarity":
		r, ok := pick(func(r termRef) bool { return r.T.Kind != ast.TPrint && r.T.Kind != ast.TCall && r.T.Kind != ast.TNew })
		if !ok {
			return nil, "", false
		}
		if r.T.X.Pol == 0 {
			r.T.X.Pol = 1
			if d.Bool("neg") {
				r.T.X.Pol = -1
			}
		} else {
			r.T.X.Pol = -r.T.X.Pol
		}
		return q, fmt.Sprintf("explicit polarity of %s set/flipped in %s", r.T.X, declName(r.Decl)), true
	case "self-arg": // pass `self` explicitly as first argument (legal) or elsewhere (not)
		r, ok := pick(func(r termRef) bool { return r.T.Kind == ast.TCall && (len(r.T.Args) == 0 || !r.T.Args[0].Self) })
		if !ok {
			return nil, "", false
		}
		if d.Chance(70, "front") {
			r.T.Args = append([]ast.Nm{ast.SelfNm}, r.T.Args...)
		} else {
			r.T.Args = append(r.T.Args, ast.SelfNm)
		}
		return q, "self added to the arguments of " + r.T.Fn + " in " + declName(r.Decl), true
	}
	if kind == "typedef-change" { // the body of a type definition becomes a different type (same name)
		tds := q.Types()
		if len(tds) == 0 {
			return nil, "", false
		}
		td := tds[d.Pick(len(tds), "typedef")]
		var nodes []*ast.Ty
		td.Ty.Walk(func(n *ast.Ty) { nodes = append(nodes, n) })
		n := nodes[d.Pick(len(nodes), "node")]
		switch {
		case n.K == ast.KTensor:
			n.K = ast.KLolli
		case n.K == ast.KLolli:
			n.K = ast.KTensor
		case n.K == ast.KPlus:
			n.K = ast.KWith
		case n.K == ast.KWith:
			n.K = ast.KPlus
		case n.K == ast.KOne:
			n.K, n.L, n.R = ast.KTensor, ast.One(n.M), ast.One(n.M)
		default:
			return nil, "", false
		}
		return q, "definition of type " + td.Name + " changed", true
	}
	// mutations of types written in the program
	type tyRef struct {
		Where string
		T     *ast.Ty
		Set   func(*ast.Ty)
	}
	var tys []tyRef
	for _, dc := range q.Decls {
		dc := dc
		switch dc.Kind {
		case ast.DFun:
			if dc.Ty != nil {
				tys = append(tys, tyRef{"ret:" + dc.Name, dc.Ty, func(t *ast.Ty) { dc.Ty = t }})
			}
			for i := range dc.Params {
				i := i
				if dc.Params[i].Ty != nil {
					tys = append(tys, tyRef{"param:" + dc.Name, dc.Params[i].Ty, func(t *ast.Ty) { dc.Params[i].Ty = t }})
				}
			}
		case ast.DPrc:
			if dc.Ty != nil {
				tys = append(tys, tyRef{"prc:" + dc.Providers[0], dc.Ty, func(t *ast.Ty) { dc.Ty = t }})
			}
		}
	}
	for _, r := range terms {
		r := r
		if r.T.Kind == ast.TNew && r.T.Ann != nil {
			tys = append(tys, tyRef{"ann:" + declName(r.Decl), r.T.Ann, func(t *ast.Ty) { r.T.Ann = t }})
		}
	}
	pickTy := func(prefix string) (tyRef, bool) {
		var c []tyRef
		for _, t := range tys {
			if prefix == "" || len(t.Where) >= len(prefix) && t.Where[:len(prefix)] == prefix {
				c = append(c, t)
			}
		}
		if len(c) == 0 {
			return tyRef{}, false
		}
		return c[d.Pick(len(c), "tysite")], true
	}
	otherMode := func(t *ast.Ty) string {
		m := ast.Mode((int(t.M) + 1 + d.Pick(3, "delta")) % 4)
		return m.String()
	}
	switch kind {
	case "ann-mode", "param-mode", "ret-mode", "prc-mode":
		prefix := map[string]string{"ann-mode": "ann:", "param-mode": "param:", "ret-mode": "ret:", "prc-mode": "prc:"}[kind]
		r, ok := pickTy(prefix)
		if !ok || r.T.IsShift() {
			return nil, "", false
		}
		r.T.Ann = otherMode(r.T)
		return q, "head mode of a type (" + r.Where + ") changed to " + r.T.Ann, true
	case "shift-words":
		r, ok := pickTy("")
		if !ok {
			return nil, "", false
		}
		var shifts []*ast.Ty
		r.T.Walk(func(n *ast.Ty) {
			if n.IsShift() {
				shifts = append(shifts, n)
			}
		})
		if len(shifts) == 0 {
			return nil, "", false
		}
		s := shifts[d.Pick(len(shifts), "shift")]
		w := ast.Mode(d.Pick(4, "w")).String()
		if d.Bool("from") {
			s.FromW = w
		} else {
			s.ToW = w
		}
		return q, "mode word of a shift changed to " + w + " (" + r.Where + ")", true
	case "ann-inequivalent":
		r, ok := pickTy("")
		if !ok {
			return nil, "", false
		}
		var nodes []*ast.Ty
		r.T.Walk(func(n *ast.Ty) { nodes = append(nodes, n) })
		n := nodes[d.Pick(len(nodes), "node")]
		switch {
		case n.K == ast.KTensor:
			n.K = ast.KLolli
		case n.K == ast.KLolli:
			n.K = ast.KTensor
		case n.K == ast.KPlus:
			n.K = ast.KWith
		case n.K == ast.KWith:
			n.K = ast.KPlus
		case n.K == ast.KOne:
			n.K, n.L, n.R = ast.KTensor, ast.One(n.M), ast.One(n.M)
		case len(n.Brs) > 0:
			n.Brs[0].L = "zz"
		default:
			return nil, "", false
		}
		return q, "type (" + r.Where + ") replaced by a different one", true
	case "ann-equivalent":
		r, ok := pickTy("")
		if !ok {
			return nil, "", false
		}
		var nodes []*ast.Ty
		r.T.Walk(func(n *ast.Ty) { nodes = append(nodes, n) })
		n := nodes[d.Pick(len(nodes), "node")]
		switch {
		case len(n.Brs) >= 2:
			n.Brs[0], n.Brs[1] = n.Brs[1], n.Brs[0]
			return q, "branches of a type permuted (" + r.Where + ")", true
		case n.K == ast.KName:
			for _, dc := range q.Types() {
				if dc.Name == n.Name {
					b := dc.Ty.Clone()
					keepAnn, keepParen := n.Ann, n.Paren
					*n = *b
					n.Ann, n.Paren = keepAnn, keepParen
					if n != r.T {
						n.Ann = ""
					} else if n.Ann == "" && !n.IsShift() {
						n.Ann = dc.Ty.M.String()
					}
					return q, "type name unrolled (" + r.Where + ")", true
				}
			}
		default:
			n.Paren = !n.Paren
			return q, "redundant parentheses toggled (" + r.Where + ")", true
		}
	}
	return nil, "", false
}

// renameUses renames the uses of from in the scope of the binders of t (no capture analysis:
// the reference typechecker decides what the result means).
func renameUses(t *ast.Term, from, to string) {
	ren := func(n *ast.Nm) {
		if !n.Self && n.S == from {
			n.S = to
		}
	}
	var walk func(x *ast.Term)
	walk = func(x *ast.Term) {
		if x == nil {
			return
		}
		ren(&x.X)
		ren(&x.Y)
		ren(&x.Z)
		for i := range x.Args {
			ren(&x.Args[i])
		}
		walk(x.Body)
		walk(x.K)
		for i := range x.Brs {
			ren(&x.Brs[i].Payload)
			walk(x.Brs[i].K)
		}
	}
	walk(t.K)
	for i := range t.Brs {
		walk(t.Brs[i].K)
	}
}

func declName(d *ast.Decl) string {
	switch d.Kind {
	case ast.DFun:
		return "function " + d.Name
	case ast.DPrc:
		return "prc[" + d.Providers[0] + "]"
	}
	return d.Name
}
