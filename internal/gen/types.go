package gen

import (
	"fmt"
	"strings"

	"verif/internal/ast"
	"verif/internal/reftypes"
)

// TyGen generates type-definition environments (G-types in DESIGN.md).
type TyGen struct {
	D
	Names    []string
	Modes    map[string]ast.Mode
	MaxDepth int
	NoShifts bool
	Acyclic  bool // names refer to earlier definitions only (finite types)
	hidden   map[string]bool
	labelSeq int
	Feat     map[string]int
}

var tyLabels = []string{"a", "b", "c", "d", "zero", "succ", "nil", "cons", "l", "r", "get", "put", "stop", "next"}

func (g *TyGen) feat(s string) {
	if g.Feat == nil {
		g.Feat = map[string]int{}
	}
	g.Feat[s]++
}

func (g *TyGen) GenMode() ast.Mode {
	switch g.Pick(8, "mode") {
	case 0, 1, 2:
		return ast.Lin
	case 3, 4:
		return ast.Aff
	case 5:
		return ast.Mul
	default:
		return ast.Rep
	}
}

// ModeWord returns a random documented spelling of m (sometimes with odd casing).
func (g *TyGen) ModeWord(m ast.Mode) string {
	w := g.Of(ast.ModeSpellings[m], "spelling")
	if g.Chance(8, "case") {
		w = strings.ToUpper(w[:1]) + w[1:]
	}
	return w
}

func (g *TyGen) namesOfMode(m ast.Mode) []string {
	var c []string
	for _, n := range g.Names {
		if g.Modes[n] == m && !g.hidden[n] {
			c = append(c, n)
		}
	}
	return c
}

func (g *TyGen) labels(n int) []string {
	pool := append([]string(nil), tyLabels...)
	var out []string
	for i := 0; i < n; i++ {
		j := g.Pick(len(pool), "label")
		out = append(out, pool[j])
		pool = append(pool[:j], pool[j+1:]...)
	}
	return out
}

// Body generates a type at mode m. rootOK=false forbids a bare name (contractivity of definitions).
func (g *TyGen) Body(m ast.Mode, depth int, nameOK bool) *ast.Ty {
	k := g.Pick(12, "tykind")
	if depth <= 0 {
		if k%3 == 0 && nameOK && len(g.namesOfMode(m)) > 0 {
			k = 11
		} else {
			k = 0
		}
	}
	var t *ast.Ty
	switch k {
	case 0, 1:
		t = ast.One(m)
	case 2:
		t = ast.Tensor(m, g.Body(m, depth-1, true), g.Body(m, depth-1, true))
	case 3:
		t = ast.Lolli(m, g.Body(m, depth-1, true), g.Body(m, depth-1, true))
	case 4, 5, 6, 7:
		n := g.Int(1, 3, "nbr")
		if g.Chance(5, "widechoice") {
			n = g.Int(9, 12, "widenbr") // wide choices: whatever an implementation does differently beyond a handful of branches
		}
		ls := g.labels(n)
		var brs []ast.Br
		for _, l := range ls {
			brs = append(brs, ast.Br{L: l, T: g.Body(m, depth-1, true)})
		}
		if k < 6 {
			t = ast.Plus(m, brs...)
		} else {
			t = ast.With(m, brs...)
		}
	case 8:
		if g.NoShifts {
			t = ast.One(m)
			break
		}
		// up shift: this node at m, continuation at k with m >= k
		var ks []ast.Mode
		for k := ast.Rep; k <= ast.Lin; k++ {
			if ast.Geq(m, k) {
				ks = append(ks, k)
			}
		}
		from := ks[g.Pick(len(ks), "upfrom")]
		t = ast.Up(m, g.Body(from, depth-1, true))
		t.FromW, t.ToW = g.ModeWord(from), g.ModeWord(m)
		g.feat("up")
	case 9:
		if g.NoShifts {
			t = ast.One(m)
			break
		}
		var ks []ast.Mode
		for k := ast.Rep; k <= ast.Lin; k++ {
			if ast.Geq(k, m) {
				ks = append(ks, k)
			}
		}
		from := ks[g.Pick(len(ks), "downfrom")]
		t = ast.Down(m, g.Body(from, depth-1, true))
		t.FromW, t.ToW = g.ModeWord(from), g.ModeWord(m)
		g.feat("down")
	default:
		c := g.namesOfMode(m)
		if !nameOK || len(c) == 0 {
			t = ast.One(m)
		} else {
			t = ast.NameTy(m, c[g.Pick(len(c), "tyname")])
			g.feat("nameref")
		}
	}
	if g.Chance(6, "paren") {
		t.Paren = true
	}
	return t
}

// Env generates a well-formed environment of n definitions named prefix0..; every definition
// body is contractive; annotations are dropped where inference recovers the mode.
func (g *TyGen) Env(n int, prefix string) []*ast.Decl {
	if g.MaxDepth == 0 {
		g.MaxDepth = 3
	}
	if g.Modes == nil {
		g.Modes = map[string]ast.Mode{}
	}
	var mine []string
	common := g.GenMode()
	for i := 0; i < n; i++ {
		nm := fmt.Sprintf("%s%d", prefix, i)
		m := common
		if g.Chance(30, "othermode") {
			m = g.GenMode()
		}
		g.Names = append(g.Names, nm)
		g.Modes[nm] = m
		mine = append(mine, nm)
	}
	var decls []*ast.Decl
	if g.Acyclic {
		g.hidden = map[string]bool{}
		for _, nm := range mine {
			g.hidden[nm] = true
		}
	}
	for i, nm := range mine {
		if i > 0 && g.Acyclic {
			g.hidden[mine[i-1]] = false
		}
		m := g.Modes[nm]
		var body *ast.Ty
		if i > 0 && g.Chance(15, "alias") {
			// alias to an earlier definition of the same mode
			var c []string
			for _, e := range mine[:i] {
				if g.Modes[e] == m {
					c = append(c, e)
				}
			}
			if len(c) > 0 {
				body = ast.NameTy(m, c[g.Pick(len(c), "aliasto")])
				g.feat("alias")
			}
		}
		if body == nil {
			body = g.Body(m, g.Int(1, g.MaxDepth, "depth"), false)
			for body.K == ast.KName {
				body = ast.One(m)
			}
		}
		decls = append(decls, &ast.Decl{Kind: ast.DType, Name: nm, Ty: body})
	}
	if g.Acyclic && len(mine) > 0 {
		g.hidden[mine[len(mine)-1]] = false
	}
	g.Annotate(decls)
	return decls
}

// Annotate chooses head annotations: always where inference would not recover the intended
// mode, randomly elsewhere.
func (g *TyGen) Annotate(decls []*ast.Decl) {
	for _, d := range decls {
		d.Ty.Ann = ""
		if !d.Ty.IsShift() {
			d.Ty.Ann = g.ModeWord(g.Modes[d.Name])
		}
	}
	for _, d := range decls {
		if d.Ty.IsShift() {
			continue
		}
		if !g.Chance(55, "dropann") {
			continue
		}
		keep := d.Ty.Ann
		d.Ty.Ann = ""
		env, ill := reftypes.Resolve(decls)
		if ill != nil || env.Defs[d.Name].Mode != g.Modes[d.Name] {
			d.Ty.Ann = keep
		} else {
			g.feat("inferred-head")
		}
	}
}

// AnnType generates an inline (annotation) type at mode m over the current names, annotated
// so that it resolves to m.
func (g *TyGen) AnnType(m ast.Mode, depth int, env *reftypes.Env) *ast.Ty {
	t := g.Body(m, depth, true)
	if !t.IsShift() {
		t.Ann = g.ModeWord(m)
		if g.Chance(50, "dropann") && env != nil {
			keep := t.Ann
			t.Ann = ""
			if r, ill := env.ResolveAnn(t, "ann"); ill != nil || r.M != m {
				t.Ann = keep
			}
		}
	}
	return t
}

// ---------- one-defect injection (C10) ----------

// allNodes lists (definition index, node, depth, parent pointer setter).
type nodeRef struct {
	Def   int
	Node  *ast.Ty
	Depth int
	Set   func(*ast.Ty)
}

func collect(decls []*ast.Decl) []nodeRef {
	var out []nodeRef
	var walk func(di int, t *ast.Ty, depth int, set func(*ast.Ty))
	walk = func(di int, t *ast.Ty, depth int, set func(*ast.Ty)) {
		if t == nil {
			return
		}
		out = append(out, nodeRef{di, t, depth, set})
		if t.L != nil {
			walk(di, t.L, depth+1, func(n *ast.Ty) { t.L = n })
		}
		if t.R != nil {
			walk(di, t.R, depth+1, func(n *ast.Ty) { t.R = n })
		}
		for i := range t.Brs {
			i := i
			walk(di, t.Brs[i].T, depth+1, func(n *ast.Ty) { t.Brs[i].T = n })
		}
	}
	for i, d := range decls {
		d := d
		walk(i, d.Ty, 0, func(n *ast.Ty) { n.Ann = d.Ty.Ann; d.Ty = n })
	}
	return out
}

var DefectClasses = []string{"undefined", "dup-def", "dup-label", "alias-cycle", "unknown-mode", "mode-change", "shift-pair", "head-vs-shift", "none"}

// Inject applies one edit of the given class to (a clone of) decls. It reports what it did;
// whether the result is ill-formed is for the reference to decide.
func (g *TyGen) Inject(decls []*ast.Decl, class string) ([]*ast.Decl, string) {
	out := (&ast.Program{Decls: decls}).Clone().Decls
	nodes := collect(out)
	pickNode := func(pred func(nodeRef) bool) (nodeRef, bool) {
		var c []nodeRef
		for _, n := range nodes {
			if pred(n) {
				c = append(c, n)
			}
		}
		if len(c) == 0 {
			return nodeRef{}, false
		}
		return c[g.Pick(len(c), "node")], true
	}
	switch class {
	case "undefined":
		n, _ := pickNode(func(nodeRef) bool { return true })
		r := ast.NameTy(n.Node.M, g.Of([]string{"Undef", "U9", "nat", "t0"}, "undef"))
		n.Set(r)
		return out, fmt.Sprintf("undefined name at depth %d", n.Depth)
	case "dup-def":
		i := g.Pick(len(out), "dup")
		c := *out[i]
		c.Ty = out[i].Ty.Clone()
		if g.Bool("otherbody") {
			c.Ty = ast.One(out[i].Ty.M)
			c.Ty.Ann = g.ModeWord(out[i].Ty.M)
		}
		pos := g.Int(0, len(out), "at")
		out = append(out[:pos], append([]*ast.Decl{&c}, out[pos:]...)...)
		return out, "definition " + c.Name + " repeated"
	case "dup-label":
		n, ok := pickNode(func(r nodeRef) bool { return (r.Node.K == ast.KPlus || r.Node.K == ast.KWith) })
		if !ok {
			return out, "no choice to duplicate a label in"
		}
		t := n.Node
		if len(t.Brs) >= 2 && g.Bool("byrenaming") {
			// the number of branches stays the same: one label is respelled like another
			i := g.Pick(len(t.Brs), "renamed")
			j := (i + 1 + g.Pick(len(t.Brs)-1, "onto")) % len(t.Brs)
			t.Brs[i].L = t.Brs[j].L
			return out, fmt.Sprintf("label %s duplicated at depth %d (by respelling another label)", t.Brs[j].L, n.Depth)
		}
		src := t.Brs[g.Pick(len(t.Brs), "src")]
		nb := ast.Br{L: src.L, T: src.T.Clone()}
		if g.Bool("othertype") {
			nb.T = ast.One(t.M)
		}
		pos := g.Int(0, len(t.Brs), "brpos")
		t.Brs = append(t.Brs[:pos], append([]ast.Br{nb}, t.Brs[pos:]...)...)
		return out, fmt.Sprintf("label %s duplicated at depth %d", nb.L, n.Depth)
	case "alias-cycle":
		i := g.Pick(len(out), "cyc")
		k := g.Int(0, 4, "len")
		m := out[i].Ty.M
		cur := out[i].Name
		first := cur
		var extra []*ast.Decl
		for j := 0; j < k; j++ {
			nm := fmt.Sprintf("Cy%d", j)
			extra = append(extra, &ast.Decl{Kind: ast.DType, Name: nm})
			cur = nm
		}
		// first = Cy0, Cy0 = Cy1, ..., Cy(k-1) = first   (k == 0: first = first)
		names := []string{first}
		for _, e := range extra {
			names = append(names, e.Name)
		}
		for j, nm := range names {
			target := names[(j+1)%len(names)]
			body := ast.NameTy(m, target)
			if g.Chance(40, "annalias") {
				body.Ann = g.ModeWord(m)
			}
			if j == 0 {
				out[i].Ty = body
			} else {
				extra[j-1].Ty = body
			}
			_ = nm
		}
		out = append(out, extra...)
		if g.Chance(40, "lasso") {
			// a lasso: definitions that lead into the cycle without being part of it, listed before
			// every member of the cycle (a checker that only notices returning to where it started
			// never notices this one)
			n := g.Int(1, 3, "lassolen")
			var entry []*ast.Decl
			for j := 0; j < n; j++ {
				target := first
				if j+1 < n {
					target = fmt.Sprintf("La%d", j+1)
				}
				var body *ast.Ty = ast.NameTy(m, target)
				if j == 0 && g.Chance(25, "underconstructor") {
					body = ast.Tensor(m, ast.One(m), ast.NameTy(m, target))
				}
				entry = append(entry, &ast.Decl{Kind: ast.DType, Name: fmt.Sprintf("La%d", j), Ty: body})
			}
			out = append(entry, out...)
			return out, fmt.Sprintf("alias cycle of length %d through %s, entered through a chain of %d definitions listed first", k+1, first, n)
		}
		return out, fmt.Sprintf("alias cycle of length %d through %s", k+1, first)
	case "unknown-mode":
		bad := g.Of([]string{"foo", "shared", "linn", "x", "replicable2", "unrestricted"}, "badmode")
		n, ok := pickNode(func(r nodeRef) bool { return r.Node.IsShift() || (r.Depth == 0 && r.Node.Ann != "") })
		if !ok {
			out[0].Ty.Ann = bad
			return out, "unknown head mode word"
		}
		if n.Node.IsShift() {
			if g.Bool("from") {
				n.Node.FromW = bad
			} else {
				n.Node.ToW = bad
			}
			return out, fmt.Sprintf("unknown mode word in a shift at depth %d", n.Depth)
		}
		n.Node.Ann = bad
		return out, "unknown head mode word"
	case "mode-change":
		switch g.Pick(3, "how") {
		case 0: // change a head annotation
			i := g.Pick(len(out), "def")
			m := ast.Mode((int(out[i].Ty.M) + 1 + g.Pick(3, "delta")) % 4)
			if out[i].Ty.IsShift() {
				return out, "head is a shift, nothing changed"
			}
			out[i].Ty.Ann = g.ModeWord(m)
			return out, "head annotation of " + out[i].Name + " changed to " + m.String()
		case 1: // refer to a definition of another mode
			n, ok := pickNode(func(r nodeRef) bool { return r.Node.K == ast.KName || r.Node.K == ast.KOne })
			if !ok {
				return out, "nothing to change"
			}
			var c []string
			for _, d := range out {
				if d.Ty.M != n.Node.M && d.Name != out[n.Def].Name {
					c = append(c, d.Name)
				}
			}
			if len(c) == 0 {
				return out, "no definition of another mode"
			}
			if n.Depth == 0 {
				return out, "root left alone"
			}
			n.Set(ast.NameTy(n.Node.M, c[g.Pick(len(c), "other")]))
			return out, fmt.Sprintf("name of another mode at depth %d", n.Depth)
		default: // change the target word of a shift
			n, ok := pickNode(func(r nodeRef) bool { return r.Node.IsShift() })
			if !ok {
				return out, "no shift"
			}
			m := ast.Mode((int(n.Node.M) + 1 + g.Pick(3, "delta")) % 4)
			n.Node.ToW = g.ModeWord(m)
			return out, fmt.Sprintf("shift target changed at depth %d", n.Depth)
		}
	case "shift-pair":
		// replace a unit leaf of mode m by (k /\ m 1) or (k \/ m 1) for an arbitrary k
		n, ok := pickNode(func(r nodeRef) bool { return r.Node.K == ast.KOne && r.Depth > 0 })
		if !ok {
			return out, "no leaf"
		}
		m := n.Node.M
		k := ast.Mode(g.Pick(4, "k"))
		var s *ast.Ty
		if g.Bool("up") {
			s = ast.Up(m, ast.One(k))
		} else {
			s = ast.Down(m, ast.One(k))
		}
		s.FromW, s.ToW = g.ModeWord(k), g.ModeWord(m)
		n.Set(s)
		return out, fmt.Sprintf("shift %s between %s and %s at depth %d", ast.KindName[s.K], k, m, n.Depth)
	case "head-vs-shift":
		i := g.Pick(len(out), "def")
		m := out[i].Ty.M
		from := ast.Mode(g.Pick(4, "from"))
		var s *ast.Ty
		if g.Bool("up") {
			s = ast.Up(m, ast.One(from))
		} else {
			s = ast.Down(m, ast.One(from))
		}
		s.FromW, s.ToW = g.ModeWord(from), g.ModeWord(m)
		s.Ann = g.ModeWord(ast.Mode(g.Pick(4, "ann")))
		if g.Chance(20, "badann") {
			s.Ann = "foo"
		}
		nd := &ast.Decl{Kind: ast.DType, Name: "Hs", Ty: s}
		out = append(out, nd)
		return out, "definition whose head annotation sits directly on a shift"
	}
	return out, "no defect injected"
}

// ---------- environments for the equality differential (C08) ----------

func renameTy(t *ast.Ty, f func(string) string) {
	t.Walk(func(n *ast.Ty) {
		if n.K == ast.KName {
			n.Name = f(n.Name)
		}
	})
}

func findDecl(decls []*ast.Decl, name string) *ast.Decl {
	for _, d := range decls {
		if d.Name == name {
			return d
		}
	}
	return nil
}

// EqEnv builds definitions T0.. plus clones U0.. rewritten by equality-preserving steps
// (unrolling, alias insertion, branch permutation) and, sometimes, one near-miss edit, plus
// alias definitions. The result is well-formed; which pairs are equal is for the reference.
func (g *TyGen) EqEnv() ([]*ast.Decl, []string) {
	n := g.Int(1, 4, "ndefs")
	base := g.Env(n, "T")
	var log []string
	clone := (&ast.Program{Decls: base}).Clone().Decls
	for _, d := range clone {
		d.Name = "U" + d.Name[1:]
		renameTy(d.Ty, func(s string) string {
			if strings.HasPrefix(s, "T") {
				return "U" + s[1:]
			}
			return s
		})
		g.Names = append(g.Names, d.Name)
		g.Modes[d.Name] = g.Modes["T"+d.Name[1:]]
	}
	all := append(append([]*ast.Decl{}, base...), clone...)
	// alias definitions
	na := g.Int(0, 2, "naliases")
	for i := 0; i < na; i++ {
		target := all[g.Pick(len(all), "aliasof")]
		nm := fmt.Sprintf("A%d", i)
		m := g.Modes[target.Name]
		all = append(all, &ast.Decl{Kind: ast.DType, Name: nm, Ty: ast.NameTy(m, target.Name)})
		g.Names = append(g.Names, nm)
		g.Modes[nm] = m
		log = append(log, nm+" aliases "+target.Name)
	}
	steps := g.Int(0, 4, "nrewrites")
	for s := 0; s < steps; s++ {
		nodes := collect(clone)
		switch g.Pick(4, "rewrite") {
		case 0: // unroll a name occurrence
			var c []nodeRef
			for _, r := range nodes {
				if r.Node.K == ast.KName {
					c = append(c, r)
				}
			}
			if len(c) == 0 {
				continue
			}
			r := c[g.Pick(len(c), "unrollat")]
			d := findDecl(all, r.Node.Name)
			if d == nil || d.Ty.Size() > 40 {
				continue
			}
			b := d.Ty.Clone()
			b.Ann = ""
			b.Paren = false
			r.Set(b)
			log = append(log, fmt.Sprintf("unrolled %s in %s", d.Name, clone[r.Def].Name))
		case 1: // route a name occurrence through an alias
			var c []nodeRef
			for _, r := range nodes {
				if r.Node.K == ast.KName {
					c = append(c, r)
				}
			}
			if len(c) == 0 {
				continue
			}
			r := c[g.Pick(len(c), "aliasat")]
			nm := fmt.Sprintf("A%d", len(all))
			m := r.Node.M
			all = append(all, &ast.Decl{Kind: ast.DType, Name: nm, Ty: ast.NameTy(m, r.Node.Name)})
			g.Names = append(g.Names, nm)
			g.Modes[nm] = m
			r.Node.Name = nm
			log = append(log, "alias "+nm+" inserted in "+clone[r.Def].Name)
		case 2: // permute branches
			var c []nodeRef
			for _, r := range nodes {
				if len(r.Node.Brs) >= 2 {
					c = append(c, r)
				}
			}
			if len(c) == 0 {
				continue
			}
			t := c[g.Pick(len(c), "permat")].Node
			i := g.Pick(len(t.Brs), "i")
			j := g.Pick(len(t.Brs), "j")
			t.Brs[i], t.Brs[j] = t.Brs[j], t.Brs[i]
			log = append(log, "branches permuted")
		default: // point a clone back at the original (mixing the two families)
			var c []nodeRef
			for _, r := range nodes {
				if r.Node.K == ast.KName && strings.HasPrefix(r.Node.Name, "U") {
					c = append(c, r)
				}
			}
			if len(c) == 0 {
				continue
			}
			r := c[g.Pick(len(c), "mixat")]
			r.Node.Name = "T" + r.Node.Name[1:]
			log = append(log, "clone refers to original "+r.Node.Name)
		}
	}
	if g.Chance(55, "nearmiss") {
		nodes := collect(clone)
		r := nodes[g.Pick(len(nodes), "missat")]
		t := r.Node
		switch {
		case len(t.Brs) > 0 && g.Bool("label"):
			i := g.Pick(len(t.Brs), "br")
			t.Brs[i].L = "zz"
			log = append(log, "near miss: label renamed")
		case len(t.Brs) > 1:
			i := g.Pick(len(t.Brs), "br")
			t.Brs = append(t.Brs[:i], t.Brs[i+1:]...)
			log = append(log, "near miss: branch dropped")
		case t.K == ast.KTensor:
			t.K = ast.KLolli
			log = append(log, "near miss: * became -*")
		case t.K == ast.KLolli:
			t.K = ast.KTensor
			log = append(log, "near miss: -* became *")
		case t.K == ast.KPlus:
			t.K = ast.KWith
			log = append(log, "near miss: + became &")
		case t.K == ast.KWith:
			t.K = ast.KPlus
			log = append(log, "near miss: & became +")
		case t.K == ast.KOne && r.Depth > 0:
			r.Set(ast.Tensor(t.M, ast.One(t.M), ast.One(t.M)))
			log = append(log, "near miss: 1 became 1 * 1")
		case t.IsShift() && t.L.M == t.M:
			if t.K == ast.KUp {
				t.K = ast.KDown
			} else {
				t.K = ast.KUp
			}
			log = append(log, "near miss: shift direction flipped")
		case t.K == ast.KName:
			c := g.namesOfMode(t.M)
			t.Name = c[g.Pick(len(c), "othername")]
			log = append(log, "near miss: name replaced by "+t.Name)
		}
	}
	if g.Chance(25, "assocfamily") {
		all = append(all, g.assocFamily(&log)...)
	}
	if !g.NoShifts && g.Chance(30, "shiftfamily") {
		all = append(all, g.shiftFamily(&log)...)
	}
	if g.Chance(12, "dagfamily") {
		all = append(all, g.dagFamily(&log)...)
	}
	// a definition body must not have become a bare name cycle; aliases only point to existing names
	g.Annotate(all)
	return all, log
}

// assocFamily adds definitions that differ only in how binary constructors associate (or in
// whether a shift covers the rest of the type), referenced through names and inline, so that an
// equality that identifies types by an ambiguous rendering is exposed.
func (g *TyGen) assocFamily(log *[]string) []*ast.Decl {
	m := g.GenMode()
	leaf := func() *ast.Ty {
		if c := g.namesOfMode(m); len(c) > 0 && g.Chance(40, "leafname") {
			return ast.NameTy(m, c[g.Pick(len(c), "leaf")])
		}
		return ast.One(m)
	}
	bin := func(l, r *ast.Ty) *ast.Ty {
		if g.Bool("lolli") {
			return ast.Lolli(m, l, r)
		}
		return ast.Tensor(m, l, r)
	}
	x, y, z := leaf(), leaf(), leaf()
	var left, right *ast.Ty
	if g.Chance(30, "shiftform") && !g.NoShifts {
		// (m /\ m x) op y   versus   m /\ m (x op y)
		op := bin(x.Clone(), y.Clone())
		mk := ast.Up
		if g.Bool("down") {
			mk = ast.Down
		}
		right = mk(m, op)
		left = &ast.Ty{K: op.K, M: m, L: mk(m, x.Clone()), R: y.Clone()}
	} else {
		k1 := bin(x.Clone(), y.Clone())
		left = &ast.Ty{K: ast.KTensor, M: m, L: k1, R: z.Clone()}
		inner := &ast.Ty{K: ast.KTensor, M: m, L: y.Clone(), R: z.Clone()}
		right = &ast.Ty{K: k1.K, M: m, L: x.Clone(), R: inner}
		if g.Bool("outerlolli") {
			left.K, inner.K = ast.KLolli, ast.KLolli
		}
	}
	add := func(name string, t *ast.Ty) *ast.Decl {
		g.Names = append(g.Names, name)
		g.Modes[name] = m
		return &ast.Decl{Kind: ast.DType, Name: name, Ty: t}
	}
	var out []*ast.Decl
	out = append(out, add("AsL", left), add("AsR", right))
	out = append(out, add("AsS", ast.Plus(m, ast.Br{L: "a", T: ast.NameTy(m, "AsL")}, ast.Br{L: "b", T: ast.NameTy(m, "AsL")})))
	out = append(out, add("AsT", ast.Plus(m, ast.Br{L: "a", T: left.Clone()}, ast.Br{L: "b", T: right.Clone()})))
	out = append(out, add("AsV", ast.Plus(m, ast.Br{L: "a", T: left.Clone()}, ast.Br{L: "b", T: left.Clone()})))
	*log = append(*log, "association family AsL/AsR/AsS/AsT/AsV added")
	return out
}


// dagFamily adds two parallel chains of definitions, each level mentioning the next one twice
// (Dg_i = Dg_{i+1} op Dg_{i+1}, likewise Dh_i): the unfolding of Dg0 is a tree with 2^n leaves, the
// definitions are a chain of n. Comparing Dg0 with Dh0 is linear work for an algorithm that shares
// what it has established between sibling positions, and exponential for one that does not.
func (g *TyGen) dagFamily(log *[]string) []*ast.Decl {
	m := g.GenMode()
	n := g.Int(12, 40, "dagdepth")
	var out []*ast.Decl
	add := func(name string, t *ast.Ty) {
		g.Names = append(g.Names, name)
		g.Modes[name] = m
		out = append(out, &ast.Decl{Kind: ast.DType, Name: name, Ty: t})
	}
	ops := make([]int, n)
	for i := range ops {
		ops[i] = g.Pick(4, "dagop")
	}
	if g.Likely(60, "dagoneop") {
		// one constructor all the way down: whatever a comparison fails to share for that
		// constructor costs 2^n
		for i := range ops {
			ops[i] = ops[0]
		}
	}
	nearMiss := g.Chance(30, "dagnearmiss")
	for _, stem := range []string{"Dg", "Dh"} {
		for i := 0; i < n; i++ {
			a, b := ast.NameTy(m, fmt.Sprintf("%s%d", stem, i+1)), ast.NameTy(m, fmt.Sprintf("%s%d", stem, i+1))
			var t *ast.Ty
			switch ops[i] {
			case 0:
				t = ast.Tensor(m, a, b)
			case 1:
				t = ast.Lolli(m, a, b)
			case 2:
				t = ast.Plus(m, ast.Br{L: "l", T: a}, ast.Br{L: "r", T: b})
			default:
				t = ast.With(m, ast.Br{L: "l", T: a}, ast.Br{L: "r", T: b})
			}
			add(fmt.Sprintf("%s%d", stem, i), t)
		}
		last := ast.One(m)
		if nearMiss && stem == "Dh" {
			last = ast.Tensor(m, ast.One(m), ast.One(m))
		}
		add(fmt.Sprintf("%s%d", stem, n), last)
	}
	*log = append(*log, fmt.Sprintf("dag family of depth %d (near miss at the leaves: %v)", n, nearMiss))
	return out
}

// shiftFamily adds definitions whose root is a shift and that differ only in one of the two
// modes of that shift (same continuation where the modes allow it), and choices over them.
func (g *TyGen) shiftFamily(log *[]string) []*ast.Decl {
	up := g.Bool("upfamily")
	var out []*ast.Decl
	add := func(name string, t *ast.Ty) {
		g.Names = append(g.Names, name)
		g.Modes[name] = t.M
		out = append(out, &ast.Decl{Kind: ast.DType, Name: name, Ty: t})
	}
	mk := func(from, to ast.Mode) *ast.Ty {
		c := ast.One(from)
		if g.Bool("contprod") {
			c = ast.Tensor(from, ast.One(from), ast.One(from))
		}
		var t *ast.Ty
		if up {
			t = ast.Up(to, c)
		} else {
			t = ast.Down(to, c)
		}
		t.FromW, t.ToW = g.ModeWord(from), g.ModeWord(to)
		return t
	}
	n := 0
	for from := ast.Rep; from <= ast.Lin; from++ {
		for to := ast.Rep; to <= ast.Lin; to++ {
			legal := ast.Geq(from, to)
			if up {
				legal = ast.Geq(to, from)
			}
			if legal && g.Chance(60, "keep") {
				add(fmt.Sprintf("Sh%d", n), mk(from, to))
				n++
			}
		}
	}
	// the same shifts once more under other names (equal pairs)
	m := len(out)
	for i := 0; i < m && i < 3; i++ {
		c := out[i].Ty.Clone()
		add(fmt.Sprintf("Sh%dc", i), c)
	}
	*log = append(*log, fmt.Sprintf("shift family with %d root shifts", len(out)))
	return out
}
