package gen

import (
	"fmt"

	"verif/internal/ast"
)

// Generic protocol scenario (DESIGN.md 2.4, "arbitrary recursive protocols"): a small set of
// possibly mutually recursive single-mode type definitions over 1, *, -o, + and &, and for a type
// over them a provider and a client derived from the type itself. Termination is by construction:
// every type has a finite *rank* (the number of steps to end the session when whoever chooses
// always takes the branch of least rank); definitions of infinite rank get an ending branch.
// While a budget lasts both parties choose freely, then they hand over to *follower* functions
// (one provider and one client function per type name, recursive through the names) that choose
// by least rank and follow the peer's choices by a case over all labels.

const infRank = 1 << 20

type sessGen struct {
	g      *ProgGen
	k      int
	m      ast.Mode
	defs   map[string]*ast.Ty
	order  []string
	rank   map[string]int
	provF  map[string]string
	consF  map[string]string
	nhelp  int
	labels []string
}

func (s *sessGen) label() string {
	if len(s.labels) == 0 {
		s.labels = s.g.TG.labels(6)
	}
	return s.labels[s.g.Pick(len(s.labels), "sesslabel")]
}

func (s *sessGen) distinctLabels(n int) []string {
	if len(s.labels) == 0 {
		s.labels = s.g.TG.labels(6)
	}
	perm := append([]string{}, s.labels...)
	for i := len(perm) - 1; i > 0; i-- {
		j := s.g.Pick(i+1, "sesslabperm")
		perm[i], perm[j] = perm[j], perm[i]
	}
	return perm[:n]
}

// ty generates a type of the scenario's mode; top forbids a bare name (contractivity).
func (s *sessGen) ty(depth int, top bool) *ast.Ty {
	g, m := s.g, s.m
	if depth <= 0 {
		if !top && g.Likely(60, "sessleafname") {
			return ast.NameTy(m, s.order[g.Pick(len(s.order), "sessname")])
		}
		return ast.One(m)
	}
	k := g.Pick(9, "sesskind")
	switch {
	case k == 0:
		return ast.One(m)
	case k == 1 && !top:
		return ast.NameTy(m, s.order[g.Pick(len(s.order), "sessname")])
	case k == 2:
		return ast.Tensor(m, s.ty(depth-1, false), s.ty(depth-1, false))
	case k == 3:
		return ast.Lolli(m, s.ty(depth-1, false), s.ty(depth-1, false))
	case k == 4 && g.Chance(50, "sessshift"):
		// a shift from the scenario's mode to itself: the protocol stays at one mode, the shift and
		// cast rules are exercised all the same
		if g.Bool("sessup") {
			return ast.Up(m, s.ty(depth-1, false))
		}
		return ast.Down(m, s.ty(depth-1, false))
	}
	n := g.Int(1, 3, "sessnbr")
	ls := s.distinctLabels(n)
	var brs []ast.Br
	for _, l := range ls {
		brs = append(brs, ast.Br{L: l, T: s.ty(depth-1, false)})
	}
	if k%2 == 0 {
		return ast.Plus(m, brs...)
	}
	return ast.With(m, brs...)
}

func sat(n int) int {
	if n >= infRank {
		return infRank
	}
	return n
}

func (s *sessGen) rankTy(t *ast.Ty) int {
	switch t.K {
	case ast.KOne:
		return 0
	case ast.KName:
		return s.rank[t.Name]
	case ast.KUp, ast.KDown:
		return sat(1 + s.rankTy(t.L))
	case ast.KTensor, ast.KLolli:
		l, r := s.rankTy(t.L), s.rankTy(t.R)
		if r > l {
			l = r
		}
		return sat(1 + l)
	case ast.KPlus, ast.KWith:
		best := infRank
		for _, b := range t.Brs {
			if r := s.rankTy(b.T); r < best {
				best = r
			}
		}
		return sat(1 + best)
	}
	return infRank
}

func (s *sessGen) computeRanks() {
	for _, n := range s.order {
		s.rank[n] = infRank
	}
	for changed := true; changed; {
		changed = false
		for _, n := range s.order {
			if r := s.rankTy(s.defs[n]); r != s.rank[n] {
				s.rank[n], changed = r, true
			}
		}
	}
}

func (s *sessGen) minBranch(t *ast.Ty) int {
	best, bi := infRank+1, 0
	for i, b := range t.Brs {
		if r := s.rankTy(b.T); r < best {
			best, bi = r, i
		}
	}
	return bi
}

// polarity of a protocol type (+1 positive, -1 negative), through names.
func (s *sessGen) polarity(t *ast.Ty) int {
	for t.K == ast.KName {
		t = s.defs[t.Name]
	}
	if t.K == ast.KWith || t.K == ast.KLolli || t.K == ast.KUp {
		return -1
	}
	return 1
}

func (s *sessGen) ann(t *ast.Ty) *ast.Ty {
	if t.IsShift() {
		c := t.Clone() // a shift states its own modes; a head annotation in front of it is F15's shape
		c.Ann = ""
		return c
	}
	return annOf(s.m, t)
}
func (s *sessGen) one() *ast.Ty         { return annOf(s.m, ast.One(s.m)) }

func (s *sessGen) followP(name string) string {
	if f, ok := s.provF[name]; ok {
		return f
	}
	f := fmt.Sprintf("offer%d_%s", s.k, name)
	s.provF[name] = f
	d := &ast.Decl{Kind: ast.DFun, Name: f, Ty: s.ann(ast.NameTy(s.m, name))}
	s.g.Funs = append(s.g.Funs, d)
	s.g.scoped(func() {
		d.Body = s.prov(ast.SelfNm, s.defs[name], 0)
		if d.Body != nil && s.g.Chance(40, "sessexplicitfollower") {
			// `let offer[w : T] = …`: the follower names its provider; callers hand it theirs
			w := s.g.fresh("w")
			d.Explicit = w
			renameSelf(d.Body, w, s.g)
			s.g.feat("explicit-provider")
		}
	})
	return f
}

func (s *sessGen) followC(name string) string {
	if f, ok := s.consF[name]; ok {
		return f
	}
	f := fmt.Sprintf("use%d_%s", s.k, name)
	s.consF[name] = f
	d := &ast.Decl{Kind: ast.DFun, Name: f, Ty: s.one(), Params: []ast.Param{{Name: "x", Ty: s.ann(ast.NameTy(s.m, name))}}}
	s.g.Funs = append(s.g.Funs, d)
	s.g.scoped(func() { d.Body = s.cons("x", s.defs[name], tClose(), 0) })
	return f
}

// cutOf: `x : T <- new body; k`, annotated unless the body is a call.
func (s *sessGen) cutOf(x string, t *ast.Ty, body, k *ast.Term) *ast.Term {
	if body != nil && body.HasContinuation() {
		// Grits splits the context of a cut only for an axiom or a call: a compound (closed)
		// provider becomes a function of its own
		s.nhelp++
		fn := fmt.Sprintf("make%d_%d", s.k, s.nhelp)
		s.g.Funs = append(s.g.Funs, &ast.Decl{Kind: ast.DFun, Name: fn, Ty: s.ann(t), Body: body})
		body = tCall(fn)
	}
	var a *ast.Ty
	if body == nil || body.Kind != ast.TCall || s.g.Chance(25, "sessannot") {
		a = s.ann(t)
	}
	return tNew(x, a, body, k)
}

// prov: a term providing t on w (self, or the name a right rule gave the provider).
func (s *sessGen) prov(w ast.Nm, t *ast.Ty, budget int) *ast.Term {
	g := s.g
	switch t.K {
	case ast.KName:
		if budget > 0 && g.Likely(60, "sessinline") {
			return s.prov(w, s.defs[t.Name], budget-1)
		}
		c := tCall(s.followP(t.Name))
		if !w.Self {
			c.Args = append(c.Args, w)
		} else if g.Chance(20, "sessexplicitself") {
			c.Args = append(c.Args, ast.SelfNm)
		}
		return c
	case ast.KOne:
		return &ast.Term{Kind: ast.TClose, X: w}
	case ast.KTensor:
		p, q := g.fresh("p"), g.fresh("q")
		return s.cutOf(p, t.L, s.prov(ast.SelfNm, t.L, budget),
			s.cutOf(q, t.R, s.prov(ast.SelfNm, t.R, budget), &ast.Term{Kind: ast.TSend, X: w, Y: ast.N(p), Z: ast.N(q)}))
	case ast.KLolli:
		y, w2 := g.fresh("y"), g.fresh("s")
		return &ast.Term{Kind: ast.TRecv, X: ast.N(y), Y: ast.N(w2), Z: w, K: s.consVia(y, t.L, s.prov(ast.N(w2), t.R, budget), budget)}
	case ast.KPlus:
		i := s.minBranch(t)
		if budget > 0 {
			i = g.Pick(len(t.Brs), "sesschoose")
		}
		q := g.fresh("q")
		return tPrint(g.plabel("o"), s.cutOf(q, t.Brs[i].T, s.prov(ast.SelfNm, t.Brs[i].T, budget),
			&ast.Term{Kind: ast.TSel, X: w, Label: t.Brs[i].L, Y: ast.N(q)}))
	case ast.KUp:
		w2 := g.fresh("s")
		return &ast.Term{Kind: ast.TShift, X: ast.N(w2), Z: w, K: tPrint(g.plabel("h"), s.prov(ast.N(w2), t.L, budget))}
	case ast.KDown:
		q := g.fresh("q")
		return s.cutOf(q, t.L, s.prov(ast.SelfNm, t.L, budget), &ast.Term{Kind: ast.TCast, X: w, Y: ast.N(q)})
	case ast.KWith:
		c := &ast.Term{Kind: ast.TCase, X: w}
		nb := budget
		if len(t.Brs) > 1 && nb > 0 {
			nb--
		}
		for _, b := range t.Brs {
			w2 := g.fresh("s")
			c.Brs = append(c.Brs, ast.Branch{Label: b.L, Payload: ast.N(w2), K: tPrint(g.plabel("g"), s.prov(ast.N(w2), b.T, nb))})
		}
		g.shuffleBranches(c)
		return c
	}
	g.dead = true
	return nil
}

// consVia uses x up in a spawned helper and continues with k when the helper is done.
func (s *sessGen) consVia(x string, t *ast.Ty, k *ast.Term, budget int) *ast.Term {
	g := s.g
	if t.K == ast.KOne {
		return tWait(x, k)
	}
	var fn string
	if t.K == ast.KName && (budget == 0 || g.Likely(50, "sessfollowhelper")) {
		fn = s.followC(t.Name)
	} else {
		s.nhelp++
		fn = fmt.Sprintf("help%d_%d", s.k, s.nhelp)
		d := &ast.Decl{Kind: ast.DFun, Name: fn, Ty: s.one(), Params: []ast.Param{{Name: "x", Ty: s.ann(t)}}}
		g.Funs = append(g.Funs, d)
		g.scoped(func() { d.Body = s.cons("x", t, tClose(), budget) })
	}
	u := g.fresh("u")
	return tNew(u, nil, tCall(fn, x), tWait(u, k))
}

// cons: a term that uses x : t up and continues with k (k is cloned into every branch).
func (s *sessGen) cons(x string, t *ast.Ty, k *ast.Term, budget int) *ast.Term {
	g := s.g
	if budget > 0 && t.K != ast.KOne {
		if s.m.W() && g.Chance(8, "sessdrop") {
			g.feat("session-dropped")
			return g.withPol(tDrop(x, k), s.polarity(t))
		}
		if s.m.C() && g.Chance(8, "sesssplit") {
			g.feat("session-split")
			a, b := g.fresh("l"), g.fresh("r")
			return g.withPol(tSplit(a, b, x, s.consVia(a, t, s.cons(b, t, k, budget-1), budget-1)), s.polarity(t))
		}
	}
	switch t.K {
	case ast.KName:
		if budget > 0 && g.Likely(60, "sessinline") {
			return s.cons(x, s.defs[t.Name], k, budget-1)
		}
		u := g.fresh("u")
		return tNew(u, nil, tCall(s.followC(t.Name), x), tWait(u, k))
	case ast.KOne:
		return tWait(x, k)
	case ast.KTensor:
		p, q := g.fresh("p"), g.fresh("q")
		return &ast.Term{Kind: ast.TRecv, X: ast.N(p), Y: ast.N(q), Z: ast.N(x), K: s.consVia(p, t.L, s.cons(q, t.R, k, budget), budget)}
	case ast.KLolli:
		p, q := g.fresh("p"), g.fresh("q")
		return s.cutOf(p, t.L, s.prov(ast.SelfNm, t.L, budget),
			s.cutOf(q, t.R, &ast.Term{Kind: ast.TSend, X: ast.N(x), Y: ast.N(p), Z: ast.SelfNm}, s.cons(q, t.R, k, budget)))
	case ast.KUp:
		q := g.fresh("q")
		return s.cutOf(q, t.L, &ast.Term{Kind: ast.TCast, X: ast.N(x), Y: ast.SelfNm}, s.cons(q, t.L, k, budget))
	case ast.KDown:
		y := g.fresh("y")
		return &ast.Term{Kind: ast.TShift, X: ast.N(y), Z: ast.N(x), K: tPrint(g.plabel("d"), s.cons(y, t.L, k, budget))}
	case ast.KPlus:
		c := &ast.Term{Kind: ast.TCase, X: ast.N(x)}
		nb := budget
		if len(t.Brs) > 1 && nb > 0 {
			nb--
		}
		for _, b := range t.Brs {
			y := g.fresh("y")
			c.Brs = append(c.Brs, ast.Branch{Label: b.L, Payload: ast.N(y), K: tPrint(g.plabel("c"), s.cons(y, b.T, k.Clone(), nb))})
		}
		g.shuffleBranches(c)
		return c
	case ast.KWith:
		i := s.minBranch(t)
		if budget > 0 {
			i = g.Pick(len(t.Brs), "sesschoose")
		}
		q := g.fresh("q")
		return tPrint(g.plabel("a"), s.cutOf(q, t.Brs[i].T, &ast.Term{Kind: ast.TSel, X: ast.N(x), Label: t.Brs[i].L, Y: ast.SelfNm}, s.cons(q, t.Brs[i].T, k, budget)))
	}
	g.dead = true
	return nil
}

// sessionScenario adds the definitions, the followers that turn out to be needed, and a provider
// and a client of one protocol.
func (g *ProgGen) sessionScenario(k int) {
	s := &sessGen{g: g, k: k, m: ast.Mode(g.Pick(4, "sessmode")), defs: map[string]*ast.Ty{}, rank: map[string]int{}, provF: map[string]string{}, consF: map[string]string{}}
	n := g.Int(1, 3, "sessntypes")
	for i := 0; i < n; i++ {
		s.order = append(s.order, fmt.Sprintf("proto%d_%d", k, i))
	}
	for _, nm := range s.order {
		s.defs[nm] = s.ty(g.Int(1, 2, "sessdepth"), true)
	}
	s.computeRanks()
	for _, nm := range s.order {
		if s.rank[nm] < infRank {
			continue
		}
		d := s.defs[nm]
		end := ast.Br{L: "fin", T: ast.One(s.m)}
		if d.K == ast.KPlus || d.K == ast.KWith {
			d.Brs = append(d.Brs, end)
		} else if g.Bool("sessendplus") {
			s.defs[nm] = ast.Plus(s.m, ast.Br{L: "go", T: d}, end)
		} else {
			s.defs[nm] = ast.With(s.m, ast.Br{L: "go", T: d}, end)
		}
		g.feat("session-ending-branch-added")
		s.computeRanks()
	}
	recursive := false
	for _, nm := range s.order {
		d := s.defs[nm]
		if !d.IsShift() {
			d.Ann = s.m.String()
		}
		d.Walk(func(t *ast.Ty) {
			if t.K == ast.KName {
				recursive = true
			}
		})
		g.TypeDecl = append(g.TypeDecl, &ast.Decl{Kind: ast.DType, Name: nm, Ty: d})
	}
	var T *ast.Ty
	if g.Likely(60, "sessrootname") {
		T = ast.NameTy(s.m, s.order[0])
	} else {
		T = s.ty(1, false)
	}
	budget := g.Int(0, 3, "sessbudget")
	done := func() *ast.Term { return tPrint(g.plabel("end"), tClose()) }
	if g.Bool("sesstoplevel") {
		pn := fmt.Sprintf("peer%d", k)
		g.Prcs = append(g.Prcs, &ast.Decl{Kind: ast.DPrc, Providers: []string{pn}, Ty: s.ann(T), Body: s.prov(ast.SelfNm, T, budget)})
		g.Prcs = append(g.Prcs, &ast.Decl{Kind: ast.DPrc, Providers: []string{fmt.Sprintf("sessmain%d", k)}, Ty: s.one(), Body: s.cons(pn, T, done(), budget)})
	} else {
		v := g.fresh("v")
		body := s.cutOf(v, T, s.prov(ast.SelfNm, T, budget), s.cons(v, T, done(), budget))
		g.Prcs = append(g.Prcs, &ast.Decl{Kind: ast.DPrc, Providers: []string{fmt.Sprintf("sessmain%d", k)}, Ty: s.one(), Body: body})
	}
	if recursive {
		g.feat("generic-recursive-protocol")
	} else {
		g.feat("generic-protocol")
	}
}
