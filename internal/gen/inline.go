package gen

import (
	"verif/internal/ast"
)

// InlineCuts turns some `x <- new f(args)` into `x <- new (body of f with the arguments put in)`.
// The result means the same in the SAX semantics; Grits' typechecker refuses it (it splits the
// context of a cut only for an axiom or a call) but its interpreter runs it, as the maintainers'
// own run-time tests do. Only for programs whose channel names are unique program-wide (no capture
// to think about) and callees that are not recursive and do not name their provider.
func (d D) InlineCuts(p *ast.Program) (*ast.Program, int) {
	q := p.Clone()
	n := 0
	var walk func(t *ast.Term, depth int)
	walk = func(t *ast.Term, depth int) {
		if t == nil {
			return
		}
		if t.Kind == ast.TNew && t.Body != nil && t.Body.Kind == ast.TCall && depth < 3 {
			f := q.Fun(t.Body.Fn)
			if f != nil && f.Body != nil && f.Explicit == "" && len(f.Params) == len(t.Body.Args) && !callsAnything(f.Body, f.Name) && d.Likely(60, "inline") {
				ok := true
				for _, a := range t.Body.Args {
					if a.Self {
						ok = false
					}
				}
				if ok {
					b := f.Body.Clone()
					for i, pa := range f.Params {
						renameAll(b, pa.Name, t.Body.Args[i].S)
					}
					t.Body = b
					n++
					walk(t.Body, depth+1)
				}
			}
		} else {
			walk(t.Body, depth)
		}
		walk(t.K, depth)
		for i := range t.Brs {
			walk(t.Brs[i].K, depth)
		}
	}
	for _, dc := range q.Decls {
		walk(dc.Body, 0)
	}
	return q, n
}

func callsAnything(t *ast.Term, self string) bool {
	found := false
	t.Walk(func(x *ast.Term) {
		if x.Kind == ast.TCall && x.Fn == self {
			found = true
		}
	})
	return found
}

// renameAll renames every occurrence (binder or use) of from inside t.
func renameAll(t *ast.Term, from, to string) {
	ren := func(n *ast.Nm) {
		if !n.Self && n.S == from {
			n.S = to
		}
	}
	t.Walk(func(x *ast.Term) {
		ren(&x.X)
		ren(&x.Y)
		ren(&x.Z)
		for i := range x.Args {
			ren(&x.Args[i])
		}
		for i := range x.Brs {
			ren(&x.Brs[i].Payload)
		}
	})
}
