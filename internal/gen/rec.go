package gen

import (
	"fmt"

	"verif/internal/ast"
)

// Recursive families (DESIGN.md 2.4, "Recursion without divergence"): inductive data with
// structurally recursive consumers / transformers, and demand-driven servers whose clients send
// finitely many requests. All are terminating by construction.

func tNew(x string, ann *ast.Ty, body, k *ast.Term) *ast.Term {
	return &ast.Term{Kind: ast.TNew, X: ast.N(x), Ann: ann, Body: body, K: k}
}
func tCall(fn string, args ...string) *ast.Term {
	t := &ast.Term{Kind: ast.TCall, Fn: fn}
	for _, a := range args {
		t.Args = append(t.Args, ast.N(a))
	}
	return t
}
func tClose() *ast.Term                  { return &ast.Term{Kind: ast.TClose, X: ast.SelfNm} }
func tWait(x string, k *ast.Term) *ast.Term { return &ast.Term{Kind: ast.TWait, X: ast.N(x), K: k} }
func tPrint(l string, k *ast.Term) *ast.Term {
	return &ast.Term{Kind: ast.TPrint, Label: l, K: k}
}
func tSelSelf(l, y string) *ast.Term {
	return &ast.Term{Kind: ast.TSel, X: ast.SelfNm, Label: l, Y: ast.N(y)}
}
func tSelOn(x, l string) *ast.Term {
	return &ast.Term{Kind: ast.TSel, X: ast.N(x), Label: l, Y: ast.SelfNm}
}
func tCase(x ast.Nm, brs ...ast.Branch) *ast.Term { return &ast.Term{Kind: ast.TCase, X: x, Brs: brs} }
func br(l, p string, k *ast.Term) ast.Branch      { return ast.Branch{Label: l, Payload: ast.N(p), K: k} }
func tFwd(y string) *ast.Term                     { return &ast.Term{Kind: ast.TFwd, X: ast.SelfNm, Y: ast.N(y)} }

// withPol marks the structural rules and forwards of t that act on name x with the polarity pos
// (+1 / -1) when the program is to be runnable unchecked (FwdPol).
func (g *ProgGen) withPol(t *ast.Term, pos int) *ast.Term {
	if !g.FwdPol {
		return t
	}
	switch t.Kind {
	case ast.TDrop:
		t.X.Pol = pos
	case ast.TSplit:
		t.Z.Pol = pos
	case ast.TFwd:
		t.Y.Pol = pos
	}
	return t
}

// fwdPos forwards a channel of positive type; with FwdPol the polarity is written out.
func (g *ProgGen) fwdPos(y string) *ast.Term {
	t := tFwd(y)
	if g.FwdPol {
		t.Y.Pol = 1
	}
	return t
}
func tDrop(x string, k *ast.Term) *ast.Term       { return &ast.Term{Kind: ast.TDrop, X: ast.N(x), K: k} }
func tSplit(a, b, x string, k *ast.Term) *ast.Term {
	return &ast.Term{Kind: ast.TSplit, X: ast.N(a), Y: ast.N(b), Z: ast.N(x), K: k}
}

func annOf(m ast.Mode, t *ast.Ty) *ast.Ty {
	c := t.Clone()
	c.Ann = m.String()
	return c
}

func (g *ProgGen) plabel(p string) string {
	g.nlab++
	return fmt.Sprintf("%s%d", p, g.nlab)
}

// NatFamily adds `type natK`, zero/succ/consume/double/add over it at mode m and returns the names.
type natFam struct {
	ty, zero, succ, consume, double, add, sum2 string
	m                                    ast.Mode
	lz, ls                               string
}

func (g *ProgGen) natFamily(k int) natFam {
	m := ast.Mode(g.Pick(4, "natmode"))
	f := natFam{m: m, ty: fmt.Sprintf("nat%d", k), zero: fmt.Sprintf("zero%d", k), succ: fmt.Sprintf("succ%d", k),
		consume: fmt.Sprintf("consume%d", k), double: fmt.Sprintf("double%d", k), add: fmt.Sprintf("add%d", k), sum2: fmt.Sprintf("sum%d", k)}
	ls := g.TG.labels(2)
	f.lz, f.ls = ls[0], ls[1]
	natT := func() *ast.Ty { return ast.NameTy(m, f.ty) }
	def := ast.Plus(m, ast.Br{L: f.lz, T: ast.One(m)}, ast.Br{L: f.ls, T: natT()})
	def.Ann = m.String()
	if g.Bool("swapbranches") {
		def.Brs[0], def.Brs[1] = def.Brs[1], def.Brs[0]
	}
	g.TypeDecl = append(g.TypeDecl, &ast.Decl{Kind: ast.DType, Name: f.ty, Ty: def})
	one := func() *ast.Ty { return annOf(m, ast.One(m)) }
	nat := func() *ast.Ty { return annOf(m, natT()) }
	fun := func(name string, ret *ast.Ty, body *ast.Term, ps ...string) {
		d := &ast.Decl{Kind: ast.DFun, Name: name, Ty: ret, Body: body}
		for _, p := range ps {
			d.Params = append(d.Params, ast.Param{Name: p, Ty: nat()})
		}
		g.Funs = append(g.Funs, d)
	}
	fun(f.zero, nat(), tNew("t", one(), tClose(), tSelSelf(f.lz, "t")))
	succBody := tSelSelf(f.ls, "n")
	if g.Chance(30, "succpol") {
		succBody.Y.Pol = 1 // self.s<+n>: an explicit polarity on a name whose type is a type name
		g.feat("polarity-on-named-type")
	}
	fun(f.succ, nat(), succBody, "n")
	fun(f.consume, one(), tCase(ast.N("n"),
		br(f.lz, "c", tPrint(g.plabel("z"), tWait("c", tClose()))),
		br(f.ls, "c", tPrint(g.plabel("s"), tCall(f.consume, "c")))), "n")
	// the inner cut may re-use the live name it consumes (`h : nat <- new self.s<h>`), and its
	// annotation may leave the mode to inference (the definition fixes it)
	dname, dann := "d", nat()
	if g.Bool("reusecutname") {
		dname = "h"
		g.feat("axiom-cut-reuses-name")
	}
	if g.Bool("modelessann") {
		dann = natT()
	}
	fun(f.double, nat(), tCase(ast.N("x"),
		br(f.lz, "x'", tSelSelf(f.lz, "x'")),
		br(f.ls, "x'", tNew("h", nil, tCall(f.double, "x'"), tNew(dname, dann, tSelSelf(f.ls, "h"), tSelSelf(f.ls, dname))))), "x")
	fun(f.add, nat(), tCase(ast.N("a"),
		br(f.lz, "c", tWait("c", g.fwdPos("b"))),
		br(f.ls, "c", tNew("r", nil, tCall(f.add, "c", "b"), tSelSelf(f.ls, "r")))), "a", "b")
	// sum2 recurses on both arguments at once, so that one process holds the predecessors of two numbers
	fun(f.sum2, nat(), tCase(ast.N("a"),
		br(f.lz, "c", tWait("c", g.fwdPos("b"))),
		br(f.ls, "a'", tCase(ast.N("b"),
			br(f.lz, "c", tWait("c", tSelSelf(f.ls, "a'"))),
			br(f.ls, "b'", tNew("r", nil, tCall(f.sum2, "a'", "b'"), tNew("t", nat(), tSelSelf(f.ls, "r"), tSelSelf(f.ls, "t"))))))), "a", "b")
	g.feat("recursive-data")
	return f
}

// natScenario adds a process that builds numbers, transforms them with the recursive functions
// and consumes them, using the structural rules the mode allows.
func (g *ProgGen) natScenario(k int) {
	f := g.natFamily(k)
	m := f.m
	var steps []func(*ast.Term) *ast.Term
	mkNum := func(n int) string {
		cur := g.fresh("n")
		c0 := cur
		steps = append(steps, func(k *ast.Term) *ast.Term { return tNew(c0, nil, tCall(f.zero), k) })
		for i := 0; i < n; i++ {
			nx, prev := g.fresh("n"), cur
			steps = append(steps, func(k *ast.Term) *ast.Term { return tNew(nx, nil, tCall(f.succ, prev), k) })
			cur = nx
		}
		return cur
	}
	var live []string
	live = append(live, mkNum(g.Int(0, 3, "num")))
	nops := g.Int(1, 4, "nops")
	for i := 0; i < nops; i++ {
		op := g.Pick(5, "natop")
		if m.C() && i == 0 && g.Likely(50, "splitfirst") {
			op = 2
		}
		switch op {
		case 0: // double
			x, r := live[len(live)-1], g.fresh("d")
			live[len(live)-1] = r
			steps = append(steps, func(k *ast.Term) *ast.Term { return tNew(r, nil, tCall(f.double, x), k) })
			g.feat("rec-double")
		case 1: // add a fresh number (recursion on one or on both arguments)
			y := mkNum(g.Int(0, 3, "num2"))
			if g.Bool("doubled") {
				y2 := g.fresh("d")
				yy := y
				steps = append(steps, func(k *ast.Term) *ast.Term { return tNew(y2, nil, tCall(f.double, yy), k) })
				y = y2
			}
			x, r := live[len(live)-1], g.fresh("a")
			live[len(live)-1] = r
			fn := f.add
			if g.Bool("sum2") {
				fn = f.sum2
				g.feat("rec-sum2")
			}
			steps = append(steps, func(k *ast.Term) *ast.Term { return tNew(r, nil, tCall(fn, x, y), k) })
			g.feat("rec-add")
		case 2: // split (contraction) a recursive value
			if m.C() {
				x, a, b := live[len(live)-1], g.fresh("l"), g.fresh("r")
				live[len(live)-1] = a
				live = append(live, b)
				steps = append(steps, func(k *ast.Term) *ast.Term { return g.withPol(tSplit(a, b, x, k), 1) })
				g.feat("rec-split")
			}
		case 3: // drop (weakening) a recursive value: cascading reclamation
			if m.W() && len(live) > 1 {
				x := live[len(live)-1]
				live = live[:len(live)-1]
				steps = append(steps, func(k *ast.Term) *ast.Term { return g.withPol(tDrop(x, k), 1) })
				g.feat("rec-drop")
			}
		default: // print in between
			l := g.plabel("m")
			steps = append(steps, func(k *ast.Term) *ast.Term { return tPrint(l, k) })
		}
	}
	if m.C() && g.Chance(60, "pairserver") {
		g.pairServer(k, f)
	}
	// consume every live number
	for _, x := range live {
		x, u := x, g.fresh("u")
		steps = append(steps, func(k *ast.Term) *ast.Term { return tNew(u, nil, tCall(f.consume, x), tWait(u, k)) })
	}
	body := tPrint(g.plabel("done"), tClose())
	for i := len(steps) - 1; i >= 0; i-- {
		body = steps[i](body)
	}
	g.Prcs = append(g.Prcs, &ast.Decl{Kind: ast.DPrc, Providers: []string{fmt.Sprintf("rmain%d", k)}, Ty: annOf(m, ast.One(m)), Body: body})
}

// serverScenario adds a demand-driven recursive server and a client that sends a few requests.
func (g *ProgGen) serverScenario(k int) {
	m := g.TG.GenMode()
	m = ast.Mode(g.Pick(4, "srvmode"))
	sT, rT := fmt.Sprintf("srv%d", k), fmt.Sprintf("rsp%d", k)
	server, client := fmt.Sprintf("server%d", k), fmt.Sprintf("client%d", k)
	ls := g.TG.labels(3)
	ping, stop, pong := ls[0], ls[1], ls[2]
	srv := ast.With(m, ast.Br{L: ping, T: ast.NameTy(m, rT)}, ast.Br{L: stop, T: ast.One(m)})
	srv.Ann = m.String()
	rsp := ast.Plus(m, ast.Br{L: pong, T: ast.NameTy(m, sT)})
	rsp.Ann = m.String()
	g.TypeDecl = append(g.TypeDecl, &ast.Decl{Kind: ast.DType, Name: sT, Ty: srv}, &ast.Decl{Kind: ast.DType, Name: rT, Ty: rsp})
	sty := func() *ast.Ty { return annOf(m, ast.NameTy(m, sT)) }
	rty := func() *ast.Ty { return annOf(m, ast.NameTy(m, rT)) }
	one := func() *ast.Ty { return annOf(m, ast.One(m)) }
	// let server() : srv = case self (ping<s> => print ..; r <- new server(); s.pong<r> | stop<s> => print ..; close s)
	sbody := tCase(ast.SelfNm,
		br(ping, "s", tPrint(g.plabel("ping"), tNew("r", nil, tCall(server), &ast.Term{Kind: ast.TSel, X: ast.N("s"), Label: pong, Y: ast.N("r")}))),
		br(stop, "s", tPrint(g.plabel("stop"), &ast.Term{Kind: ast.TClose, X: ast.N("s")})))
	g.Funs = append(g.Funs, &ast.Decl{Kind: ast.DFun, Name: server, Ty: sty(), Body: sbody})
	// client_i(s) sends i pings then stops (or drops the server when the mode allows)
	n := g.Int(0, 3, "requests")
	for i := 0; i <= n; i++ {
		name := fmt.Sprintf("%s_%d", client, i)
		var body *ast.Term
		if i == 0 {
			if m.W() && g.Bool("dropserver") {
				body = g.withPol(tDrop("s", tClose()), -1)
				g.feat("server-dropped")
			} else {
				body = tNew("x", one(), tSelOn("s", stop), tWait("x", tClose()))
			}
		} else {
			next := fmt.Sprintf("%s_%d", client, i-1)
			body = tNew("a", rty(), tSelOn("s", ping), tCase(ast.N("a"), br(pong, "b", tPrint(g.plabel("pong"), tCall(next, "b")))))
		}
		g.Funs = append(g.Funs, &ast.Decl{Kind: ast.DFun, Name: name, Ty: one(), Params: []ast.Param{{Name: "s", Ty: sty()}}, Body: body})
	}
	top := fmt.Sprintf("%s_%d", client, n)
	var body *ast.Term
	if m.C() && g.Bool("splitserver") {
		// two clients of one (duplicated) server
		body = tNew("sv", nil, tCall(server), g.withPol(tSplit("s1", "s2", "sv",
			tNew("c1", nil, tCall(top, "s1"), tNew("c2", nil, tCall(top, "s2"), tWait("c1", tWait("c2", tClose()))))), -1))
		g.feat("server-split")
	} else {
		body = tNew("sv", nil, tCall(server), tNew("c1", nil, tCall(top, "sv"), tWait("c1", tPrint(g.plabel("served"), tClose()))))
	}
	g.Prcs = append(g.Prcs, &ast.Decl{Kind: ast.DPrc, Providers: []string{fmt.Sprintf("smain%d", k)}, Ty: one(), Body: body})
	g.feat("recursive-server")
}


// counterScenario adds a recursive server that carries a state channel and calls itself with
// the provider passed explicitly (`counter(s, st)`), used by a client that ticks a few times and
// then stops it, drops it, or splits it between two clients.
func (g *ProgGen) counterScenario(k int) {
	m := ast.Mode(g.Pick(4, "ctrmode"))
	cT := fmt.Sprintf("ctr%d", k)
	counter, user := fmt.Sprintf("counter%d", k), fmt.Sprintf("user%d", k)
	ls := g.TG.labels(2)
	tick, stop := ls[0], ls[1]
	ct := ast.With(m, ast.Br{L: tick, T: ast.NameTy(m, cT)}, ast.Br{L: stop, T: ast.One(m)})
	ct.Ann = m.String()
	g.TypeDecl = append(g.TypeDecl, &ast.Decl{Kind: ast.DType, Name: cT, Ty: ct})
	cty := func() *ast.Ty { return annOf(m, ast.NameTy(m, cT)) }
	one := func() *ast.Ty { return annOf(m, ast.One(m)) }
	// let counter(st : m 1) : ctr = case self (tick<s> => print ..; counter(s, st) | stop<s> => print ..; wait st; close s)
	body := tCase(ast.SelfNm,
		br(tick, "s", tPrint(g.plabel("tick"), tCall(counter, "s", "st"))),
		br(stop, "s", tPrint(g.plabel("halt"), tWait("st", &ast.Term{Kind: ast.TClose, X: ast.N("s")}))))
	g.Funs = append(g.Funs, &ast.Decl{Kind: ast.DFun, Name: counter, Ty: cty(), Params: []ast.Param{{Name: "st", Ty: one()}}, Body: body})
	n := g.Int(0, 3, "ticks")
	for i := 0; i <= n; i++ {
		name := fmt.Sprintf("%s_%d", user, i)
		var b *ast.Term
		if i == 0 {
			if m.W() && g.Bool("dropcounter") {
				b = g.withPol(tDrop("c", tClose()), -1)
				g.feat("counter-dropped")
			} else {
				b = tNew("x", one(), tSelOn("c", stop), tWait("x", tClose()))
			}
		} else {
			b = tNew("c'", cty(), tSelOn("c", tick), tCall(fmt.Sprintf("%s_%d", user, i-1), "c'"))
		}
		g.Funs = append(g.Funs, &ast.Decl{Kind: ast.DFun, Name: name, Ty: one(), Params: []ast.Param{{Name: "c", Ty: cty()}}, Body: b})
	}
	top := fmt.Sprintf("%s_%d", user, n)
	mk := func(k *ast.Term) *ast.Term {
		return tNew("u", one(), tClose(), tNew("cn", nil, tCall(counter, "u"), k))
	}
	var main *ast.Term
	if m.C() && g.Bool("splitcounter") {
		main = mk(g.withPol(tSplit("c1", "c2", "cn", tNew("r1", nil, tCall(top, "c1"), tNew("r2", nil, tCall(top, "c2"), tWait("r1", tWait("r2", tClose()))))), -1))
		g.feat("counter-split")
	} else {
		main = mk(tNew("r1", nil, tCall(top, "cn"), tWait("r1", tPrint(g.plabel("counted"), tClose()))))
	}
	g.Prcs = append(g.Prcs, &ast.Decl{Kind: ast.DPrc, Providers: []string{fmt.Sprintf("cmain%d", k)}, Ty: one(), Body: main})
	g.feat("recursive-counter")
}


// pairServer adds a negative (hence duplicable as a whole) server that holds the predecessors of
// two numbers built by the same function, and a client that splits it: the duplicated process
// holds two different channels that were created under the same name.
func (g *ProgGen) pairServer(k int, f natFam) {
	m := f.m
	pT, srv := fmt.Sprintf("psrv%d", k), fmt.Sprintf("pairsrv%d", k)
	golab := g.TG.labels(1)[0]
	pt := ast.With(m, ast.Br{L: golab, T: ast.One(m)})
	pt.Ann = m.String()
	g.TypeDecl = append(g.TypeDecl, &ast.Decl{Kind: ast.DType, Name: pT, Ty: pt})
	nat := func() *ast.Ty { return annOf(m, ast.NameTy(m, f.ty)) }
	one := func() *ast.Ty { return annOf(m, ast.One(m)) }
	pty := func() *ast.Ty { return annOf(m, ast.NameTy(m, pT)) }
	body := tCase(ast.SelfNm, br(golab, "s",
		tNew("u1", nil, tCall(f.consume, "a"), tWait("u1", tNew("u2", nil, tCall(f.consume, "b"), tWait("u2", tPrint(g.plabel("pair"), &ast.Term{Kind: ast.TClose, X: ast.N("s")})))))))
	g.Funs = append(g.Funs, &ast.Decl{Kind: ast.DFun, Name: srv, Ty: pty(), Params: []ast.Param{{Name: "a", Ty: nat()}, {Name: "b", Ty: nat()}}, Body: body})
	num := func(name string, k *ast.Term) *ast.Term {
		// name = double(succ^n(zero)) with n >= 1, built by the same functions for both numbers
		n := g.Int(1, 2, "pairnum")
		cur := name + "z"
		var steps []func(*ast.Term) *ast.Term
		c0 := cur
		steps = append(steps, func(k *ast.Term) *ast.Term { return tNew(c0, nil, tCall(f.zero), k) })
		for i := 0; i < n; i++ {
			nx, prev := fmt.Sprintf("%s%d", name, i), cur
			steps = append(steps, func(k *ast.Term) *ast.Term { return tNew(nx, nil, tCall(f.succ, prev), k) })
			cur = nx
		}
		last := cur
		steps = append(steps, func(k *ast.Term) *ast.Term { return tNew(name, nil, tCall(f.double, last), k) })
		for i := len(steps) - 1; i >= 0; i-- {
			k = steps[i](k)
		}
		return k
	}
	consumeThen := func(x string, k *ast.Term) *ast.Term {
		u := g.fresh("u")
		return tNew(u, nil, tCall(f.consume, x), tWait(u, k))
	}
	use := tNew("ps", nil, tCall(srv, "px", "py"), g.withPol(tSplit("p1", "p2", "ps",
		tNew("g1", one(), tSelOn("p1", golab), tNew("g2", one(), tSelOn("p2", golab), tWait("g1", tWait("g2", tPrint(g.plabel("pairdone"), tClose())))))), -1))
	inner := tCase(ast.N("dy"),
		br(f.lz, "c", tWait("c", consumeThen("px", tClose()))),
		br(f.ls, "py", use))
	outer := tCase(ast.N("dx"),
		br(f.lz, "c", tWait("c", consumeThen("dy", tClose()))),
		br(f.ls, "px", inner))
	main := num("dx", num("dy", outer))
	g.Prcs = append(g.Prcs, &ast.Decl{Kind: ast.DPrc, Providers: []string{fmt.Sprintf("pmain%d", k)}, Ty: one(), Body: main})
	g.feat("pair-server-split")
}


// relayScenario: two type names with the same body; a value built at one name is relayed to the
// other by a forward and by calls, i.e. used only through type equalities between the two names.
func (g *ProgGen) relayScenario(k int) {
	m := ast.Mode(g.Pick(4, "relaymode"))
	tok, ack := fmt.Sprintf("tok%d", k), fmt.Sprintf("ack%d", k)
	mkBody := func() *ast.Ty {
		switch g.Pick(3, "relaybody") {
		case 0:
			return ast.One(m)
		case 1:
			return ast.Tensor(m, ast.One(m), ast.One(m))
		}
		ls := g.TG.labels(2)
		return ast.Plus(m, ast.Br{L: ls[0], T: ast.One(m)}, ast.Br{L: ls[1], T: ast.One(m)})
	}
	b1 := mkBody()
	b2 := b1.Clone()
	b1.Ann, b2.Ann = m.String(), m.String()
	g.TypeDecl = append(g.TypeDecl, &ast.Decl{Kind: ast.DType, Name: tok, Ty: b1}, &ast.Decl{Kind: ast.DType, Name: ack, Ty: b2})
	tokT := func() *ast.Ty { return annOf(m, ast.NameTy(m, tok)) }
	ackT := func() *ast.Ty { return annOf(m, ast.NameTy(m, ack)) }
	one := func() *ast.Ty { return annOf(m, ast.One(m)) }
	mk, relay, use := fmt.Sprintf("mktok%d", k), fmt.Sprintf("relay%d", k), fmt.Sprintf("usetok%d", k)
	// a closed provider of the body type
	var mkBodyT *ast.Term
	switch b1.K {
	case ast.KOne:
		mkBodyT = tClose()
	case ast.KTensor:
		mkBodyT = tNew("p", one(), tClose(), tNew("q", one(), tClose(), &ast.Term{Kind: ast.TSend, X: ast.SelfNm, Y: ast.N("p"), Z: ast.N("q")}))
	default:
		mkBodyT = tNew("p", one(), tClose(), tSelSelf(b1.Brs[0].L, "p"))
	}
	var useBodyT *ast.Term
	switch b1.K {
	case ast.KOne:
		useBodyT = tWait("x", tPrint(g.plabel("used"), tClose()))
	case ast.KTensor:
		useBodyT = &ast.Term{Kind: ast.TRecv, X: ast.N("p"), Y: ast.N("q"), Z: ast.N("x"), K: tWait("p", tWait("q", tPrint(g.plabel("used"), tClose())))}
	default:
		useBodyT = tCase(ast.N("x"), br(b1.Brs[0].L, "p", tWait("p", tPrint(g.plabel("used"), tClose()))), br(b1.Brs[1].L, "p", tWait("p", tClose())))
	}
	g.Funs = append(g.Funs,
		&ast.Decl{Kind: ast.DFun, Name: mk, Ty: tokT(), Body: mkBodyT},
		&ast.Decl{Kind: ast.DFun, Name: relay, Ty: ackT(), Params: []ast.Param{{Name: "x", Ty: tokT()}}, Body: g.fwdPos("x")},
		&ast.Decl{Kind: ast.DFun, Name: use, Ty: one(), Params: []ast.Param{{Name: "x", Ty: tokT()}}, Body: useBodyT})
	main := tNew("v", nil, tCall(mk), tNew("w", nil, tCall(relay, "v"), tNew("u", nil, tCall(use, "w"), tWait("u", tClose()))))
	g.Prcs = append(g.Prcs, &ast.Decl{Kind: ast.DPrc, Providers: []string{fmt.Sprintf("relaymain%d", k)}, Ty: one(), Body: main})
	g.feat("relay-between-equal-type-names")
}
