package gen

import (
	"fmt"

	"verif/internal/ast"
	"verif/internal/reftypes"
)

// ProgGen builds well-typed closed programs by type-directed construction (G-prog).
type ProgGen struct {
	D
	TG       *TyGen
	Env      *reftypes.Env
	TypeDecl []*ast.Decl
	Funs     []*ast.Decl
	Prcs     []*ast.Decl
	Feat     map[string]int
	nvar     int
	nfun     int
	nlab     int
	budget   int
	dead     bool // a dead end was met: the program must be discarded
	NoPrint  bool
	// knobs
	PrintPct  int  // chance of a print before each term (default 9)
	forceExplicit bool
	FwdPol        bool // every forward carries the polarity of the forwarded channel (needed to run a program unchecked)
	HeavyPol      bool // explicit polarities on about a third of the names instead of a few
	wantExplicit  bool
	UniformNames  bool // with LocalNames: one stem for all binders
	LocalNames    bool // name counters per declaration instead of one per program
	Recursive bool // add scenarios over recursive types (naturals, servers)
	MaxTyDepth int
}

type Var struct {
	N string
	T *ast.Ty
}

func (g *ProgGen) feat(s string) {
	if g.Feat == nil {
		g.Feat = map[string]int{}
	}
	g.Feat[s]++
}

func (g *ProgGen) fresh(p string) string {
	g.nvar++
	if g.UniformNames {
		// one stem for every kind of binder: a parameter of one function is spelled like a cut, a
		// received name or the provider alias of another
		p = "k"
	}
	return fmt.Sprintf("%s%d", p, g.nvar)
}

// scoped runs f with a name counter of its own when the program uses local naming: names are
// then unique within one declaration but recur across declarations (x1, y2, … in every
// function), as in hand-written programs. Lexical scoping makes that harmless; an interpreter
// that substitutes by spelling may not agree.
func (g *ProgGen) scoped(f func()) {
	if !g.LocalNames {
		f()
		return
	}
	saved := g.nvar
	g.nvar = 0
	f()
	g.nvar = saved
}

func (g *ProgGen) unf(t *ast.Ty) *ast.Ty { return g.Env.Unfold(t) }

// ann returns a printable copy of a resolved type with a head annotation chosen so that it
// resolves to the same mode (explicit, or omitted when inference recovers it).
// respell returns an equal type written differently: another name with the same unfolding, the
// unfolded definition in place of a name, or a name in place of a structure it abbreviates.
func (g *ProgGen) respell(t *ast.Ty) *ast.Ty {
	if g.Env == nil {
		return t
	}
	var cands []*ast.Ty
	for _, n := range g.Env.Order {
		d := g.Env.Defs[n]
		if d.Mode != t.M || (t.K == ast.KName && t.Name == n) {
			continue
		}
		if g.Env.Equal(d.Ty, t) {
			cands = append(cands, ast.NameTy(t.M, n))
		}
	}
	if t.K == ast.KName {
		if d := g.Env.Defs[t.Name]; d != nil && d.Ty.Size() <= 12 {
			b := d.Ty.Clone()
			b.Ann, b.Paren = "", false
			cands = append(cands, b)
		}
	}
	if len(cands) == 0 {
		return t
	}
	g.feat("type-respelled")
	return cands[g.Pick(len(cands), "respell")]
}

func (g *ProgGen) ann(t *ast.Ty) *ast.Ty {
	if g.Chance(25, "respell") {
		t = g.respell(t)
	}
	c := t.Clone()
	c.Ann = ""
	if c.IsShift() {
		return c
	}
	c.Ann = g.TG.ModeWord(t.M)
	if g.Chance(40, "dropann") {
		keep := c.Ann
		c.Ann = ""
		if r, ill := g.Env.ResolveAnn(c, "ann"); ill != nil || r.M != t.M {
			c.Ann = keep
		}
	}
	return c
}

func pol(n ast.Nm, t *ast.Ty, on bool) ast.Nm {
	if !on || t == nil {
		return n
	}
	if t.Positive() {
		n.Pol = 1
	} else {
		n.Pol = -1
	}
	return n
}

func (g *ProgGen) nm(s string, t *ast.Ty) ast.Nm {
	pct := 4
	if g.HeavyPol {
		pct = 35
	}
	return pol(ast.N(s), g.unf(t), g.Chance(pct, "polann"))
}

// polNm: like nm, but with FwdPol the polarity is always written (drop, split and fwd are carried
// out by forwards, which need it when the program runs unchecked).
func (g *ProgGen) polNm(s string, t *ast.Ty) ast.Nm {
	if g.FwdPol {
		return pol(ast.N(s), g.unf(t), true)
	}
	return g.nm(s, t)
}

func (g *ProgGen) self(t *ast.Ty) ast.Nm {
	return pol(ast.SelfNm, g.unf(t), g.Chance(3, "polself"))
}

// genTy draws a type of mode m for use in a program.
func (g *ProgGen) genTy(m ast.Mode, depth int) *ast.Ty {
	return g.TG.Body(m, depth, true)
}

func without(ctx []Var, i int) []Var {
	out := append([]Var{}, ctx[:i]...)
	return append(out, ctx[i+1:]...)
}

func seq(pre []*ast.Term, last *ast.Term) *ast.Term {
	for i := len(pre) - 1; i >= 0; i-- {
		pre[i].K = last
		last = pre[i]
	}
	return last
}

// mk makes a closed provider of type B through a cut; returns its name and the cut (K unset).
func (g *ProgGen) mk(B *ast.Ty) (string, *ast.Term) {
	n := g.fresh("v")
	b := g.unf(B)
	if b.K == ast.KOne && g.Likely(70, "mkone") {
		return n, &ast.Term{Kind: ast.TNew, X: ast.N(n), Ann: g.ann(B), Body: &ast.Term{Kind: ast.TClose, X: ast.SelfNm}}
	}
	f := g.newFun(nil, B)
	g.feat("cut-call")
	t := &ast.Term{Kind: ast.TNew, X: ast.N(n), Body: &ast.Term{Kind: ast.TCall, Fn: f.Name}}
	if g.Chance(30, "annot") {
		t.Ann = g.ann(B)
	}
	return n, t
}

// newFun generates `let fN(params) : ret = body` with body built from exactly the params.
func (g *ProgGen) newFun(params []Var, ret *ast.Ty) *ast.Decl {
	g.nfun++
	d := &ast.Decl{Kind: ast.DFun, Name: fmt.Sprintf("f%d", g.nfun), Ty: g.ann(ret)}
	force := g.forceExplicit
	g.forceExplicit = false
	g.Funs = append(g.Funs, d)
	savedWant := g.wantExplicit
	g.wantExplicit = false
	defer func() { g.wantExplicit = savedWant }()
	g.scoped(func() {
		var ps []Var
		for _, p := range params {
			v := Var{g.fresh("a"), p.T}
			ps = append(ps, v)
			d.Params = append(d.Params, ast.Param{Name: v.N, Ty: g.ann(p.T)})
		}
		d.Body = g.Term(ps, ret)
		if d.Body != nil && (force || g.wantExplicit && g.Chance(70, "explicitcaller") || g.Chance(18, "explicit")) {
			w := g.fresh("w")
			d.Explicit = w
			renameSelf(d.Body, w, g)
			g.feat("explicit-provider")
		}
	})
	return d
}

// renameSelf replaces some occurrences of `self` that denote the function's own provider by w.
func renameSelf(t *ast.Term, w string, g *ProgGen) {
	if t == nil {
		return
	}
	r := func(n *ast.Nm) {
		if n.Self && g.Chance(60, "useexplicit") {
			*n = ast.Nm{S: w, Pol: n.Pol}
		}
	}
	switch t.Kind {
	case ast.TSend:
		r(&t.X)
		r(&t.Z)
	case ast.TRecv, ast.TShift:
		r(&t.Z)
	case ast.TSel, ast.TCast:
		r(&t.X)
		r(&t.Y)
	case ast.TCase, ast.TClose:
		r(&t.X)
	case ast.TFwd:
		r(&t.X)
	case ast.TCall:
		if len(t.Args) > 0 && t.Args[0].Self && g.Chance(70, "passexplicit") {
			t.Args[0] = ast.Nm{S: w, Pol: t.Args[0].Pol}
		} else if len(t.Args) > 0 {
			r(&t.Args[0])
		}
	}
	// not into cut bodies: there `self` is the spawned process
	renameSelf(t.K, w, g)
	for _, b := range t.Brs {
		renameSelf(b.K, w, g)
	}
}

// Term generates a term providing A from exactly ctx (every ctx channel has mode >= A's mode).
func (g *ProgGen) Term(ctx []Var, A *ast.Ty) *ast.Term {
	if g.dead {
		return nil
	}
	g.budget--
	pp := g.PrintPct
	if pp == 0 {
		pp = 9
	}
	if !g.NoPrint && g.Chance(pp, "print") {
		g.nlab++
		g.feat("print")
		return &ast.Term{Kind: ast.TPrint, Label: fmt.Sprintf("p%d", g.nlab), K: g.Term(ctx, A)}
	}
	a := g.unf(A)
	if len(ctx) == 1 && g.Env.Equal(ctx[0].T, A) && g.Likely(40, "fwd") {
		g.feat("fwd")
		y := g.nm(ctx[0].N, ctx[0].T)
		if g.FwdPol {
			y = pol(ast.N(ctx[0].N), g.unf(ctx[0].T), true)
		}
		return &ast.Term{Kind: ast.TFwd, X: g.self(A), Y: y}
	}
	if g.budget > 0 && g.Chance(8, "tailcall") {
		// hand everything to a new function: f(ctx) or f(self, ctx); a callee that is handed the
		// provider explicitly is more often one that names its provider itself
		withSelf := g.Chance(35, "explicitself")
		if withSelf && g.Chance(60, "explicitcallee") {
			g.forceExplicit = true
		}
		f := g.newFun(ctx, A)
		g.feat("tail-call")
		if withSelf && f.Explicit != "" && g.Chance(50, "relay") {
			// an intermediate `let relay[w : A, params] = f(w, params)`: the provider travels under
			// the relay's own name for it
			g.nfun++
			rl := &ast.Decl{Kind: ast.DFun, Name: fmt.Sprintf("f%d", g.nfun), Ty: g.ann(A)}
			g.scoped(func() {
				call := &ast.Term{Kind: ast.TCall, Fn: f.Name}
				for _, v := range ctx {
					n := g.fresh("a")
					rl.Params = append(rl.Params, ast.Param{Name: n, Ty: g.ann(v.T)})
					call.Args = append(call.Args, g.nm(n, v.T))
				}
				rl.Explicit = g.fresh("w")
				call.Args = append([]ast.Nm{ast.N(rl.Explicit)}, call.Args...)
				rl.Body = call
			})
			g.Funs = append(g.Funs, rl)
			g.feat("explicit-provider-relayed-by-name")
			f = rl
			// called without `self` the relay keeps its own name for the provider
			withSelf = g.Chance(40, "relaywithself")
		}
		t := &ast.Term{Kind: ast.TCall, Fn: f.Name}
		if withSelf {
			t.Args = append(t.Args, ast.SelfNm)
			g.feat("call-with-self")
			if f.Explicit != "" {
				g.feat("explicit-provider-called-with-self")
				g.wantExplicit = true // the caller should name its provider too, and pass it by that name
			}
		}
		for _, v := range ctx {
			t.Args = append(t.Args, g.nm(v.N, v.T))
		}
		return t
	}
	negRight := a.K == ast.KLolli || a.K == ast.KWith || a.K == ast.KUp
	if len(ctx) > 0 && !(negRight && g.Chance(55, "rightfirst")) {
		return g.elim(ctx, A)
	}
	switch a.K {
	case ast.KOne:
		return &ast.Term{Kind: ast.TClose, X: g.self(A)}
	case ast.KTensor:
		b, c1 := g.mk(a.L)
		c, c2 := g.mk(a.R)
		g.feat("tensorR")
		return seq([]*ast.Term{c1, c2}, &ast.Term{Kind: ast.TSend, X: g.self(A), Y: g.nm(b, a.L), Z: g.nm(c, a.R)})
	case ast.KPlus:
		br := a.Brs[g.Pick(len(a.Brs), "selbr")]
		k, c1 := g.mk(br.T)
		g.feat("plusR")
		return seq([]*ast.Term{c1}, &ast.Term{Kind: ast.TSel, X: g.self(A), Label: br.L, Y: g.nm(k, br.T)})
	case ast.KDown:
		b, c1 := g.mk(a.L)
		g.feat("downR")
		return seq([]*ast.Term{c1}, &ast.Term{Kind: ast.TCast, X: g.self(A), Y: g.nm(b, a.L)})
	case ast.KLolli:
		x, y := g.fresh("x"), g.fresh("y")
		g.feat("lolliR")
		body := g.Term(append(append([]Var{}, ctx...), Var{x, a.L}), a.R)
		t := &ast.Term{Kind: ast.TRecv, X: g.nm(x, a.L), Y: ast.N(y), Z: g.self(A), K: body}
		if g.Chance(40, "useshadow") {
			useShadow(body, y, g)
		}
		return t
	case ast.KWith:
		g.feat("withR")
		t := &ast.Term{Kind: ast.TCase, X: g.self(A)}
		for _, br := range a.Brs {
			s := g.fresh("s")
			body := g.Term(append([]Var{}, ctx...), br.T)
			if g.Chance(40, "useshadow") {
				useShadow(body, s, g)
			}
			t.Brs = append(t.Brs, ast.Branch{Label: br.L, Payload: ast.N(s), K: body})
		}
		g.shuffleBranches(t)
		return t
	case ast.KUp:
		s := g.fresh("s")
		g.feat("upR")
		body := g.Term(ctx, a.L)
		if g.Chance(40, "useshadow") {
			useShadow(body, s, g)
		}
		return &ast.Term{Kind: ast.TShift, X: ast.N(s), Z: g.self(A), K: body}
	}
	g.dead = true
	return nil
}

// useShadow makes the continuation refer to the provider by the name a right rule bound.
func useShadow(t *ast.Term, name string, g *ProgGen) {
	if t == nil {
		return
	}
	r := func(n *ast.Nm) {
		if n.Self && g.Chance(70, "shadowocc") {
			*n = ast.Nm{S: name, Pol: n.Pol}
		}
	}
	switch t.Kind {
	case ast.TSend:
		r(&t.X)
		r(&t.Z)
		return
	case ast.TSel, ast.TCast:
		r(&t.X)
		r(&t.Y)
		return
	case ast.TClose, ast.TFwd:
		r(&t.X)
		return
	case ast.TCall:
		if len(t.Args) > 0 && t.Args[0].Self {
			r(&t.Args[0])
		}
		return
	case ast.TRecv, ast.TShift:
		if t.Z.Self {
			return // a new right rule rebinds the provider; leave the rest alone
		}
	case ast.TCase:
		if t.X.Self {
			return
		}
	}
	useShadow(t.K, name, g)
	for _, b := range t.Brs {
		useShadow(b.K, name, g)
	}
}

func (g *ProgGen) shuffleBranches(t *ast.Term) {
	for i := len(t.Brs) - 1; i > 0; i-- {
		j := g.Pick(i+1, "brperm")
		t.Brs[i], t.Brs[j] = t.Brs[j], t.Brs[i]
	}
}

// elim uses one channel of ctx.
func (g *ProgGen) elim(ctx []Var, A *ast.Ty) *ast.Term {
	am := A.M
	if len(ctx) >= 2 && g.budget > 0 && g.Chance(25, "delegate") {
		// hand a subset of the context to a spawned function
		k := 1 + g.Pick(len(ctx)-1, "delk")
		sub := ctx[:k]
		var ms []ast.Mode
		for m := ast.Rep; m <= ast.Lin; m++ {
			ok := ast.Geq(m, am)
			for _, v := range sub {
				ok = ok && ast.Geq(v.T.M, m)
			}
			if ok {
				ms = append(ms, m)
			}
		}
		if len(ms) > 0 {
			m := ms[g.Pick(len(ms), "delm")]
			rt := g.genTy(m, 1)
			f := g.newFun(sub, rt)
			n := g.fresh("d")
			if g.Chance(20, "reusename") {
				n = sub[g.Pick(len(sub), "reusewhich")].N
				g.feat("cut-reuses-name")
			}
			t := &ast.Term{Kind: ast.TNew, X: ast.N(n), Body: &ast.Term{Kind: ast.TCall, Fn: f.Name}}
			for _, v := range sub {
				t.Body.Args = append(t.Body.Args, g.nm(v.N, v.T))
			}
			if g.Chance(25, "annot") {
				t.Ann = g.ann(rt)
			}
			g.feat("delegate")
			rest := append(append([]Var{}, ctx[k:]...), Var{n, rt})
			t.K = g.Term(rest, A)
			return t
		}
	}
	i := g.Pick(len(ctx), "elimvar")
	x := ctx[i]
	rest := without(ctx, i)
	xt := g.unf(x.T)
	if x.T.M.W() && g.Chance(18, "drop") {
		g.feat("drop")
		return &ast.Term{Kind: ast.TDrop, X: g.polNm(x.N, x.T), K: g.Term(rest, A)}
	}
	if x.T.M.C() && g.budget > 0 && g.Chance(18, "split") {
		g.feat("split")
		a, b := g.fresh("c"), g.fresh("c")
		if g.Chance(20, "rebind") {
			// <x, c> <- split x: the consumed name may be bound again at once
			if g.Bool("rebindsecond") {
				b = x.N
			} else {
				a = x.N
			}
			g.feat("rebinds-consumed-name")
		}
		return &ast.Term{Kind: ast.TSplit, X: ast.N(a), Y: ast.N(b), Z: g.polNm(x.N, x.T), K: g.Term(append(rest, Var{a, x.T}, Var{b, x.T}), A)}
	}
	switch xt.K {
	case ast.KOne:
		g.feat("oneL")
		return &ast.Term{Kind: ast.TWait, X: g.nm(x.N, x.T), K: g.Term(rest, A)}
	case ast.KTensor:
		g.feat("tensorL")
		p, q := g.fresh("p"), g.fresh("q")
		if g.Chance(20, "rebind") {
			// a consumed name may be bound again, as the payload or as the continuation
			if g.Bool("rebindsecond") {
				q = x.N
			} else {
				p = x.N
			}
			g.feat("rebinds-consumed-name")
		}
		return &ast.Term{Kind: ast.TRecv, X: ast.N(p), Y: ast.N(q), Z: g.nm(x.N, x.T), K: g.Term(append(rest, Var{p, xt.L}, Var{q, xt.R}), A)}
	case ast.KPlus:
		g.feat("plusL")
		t := &ast.Term{Kind: ast.TCase, X: g.nm(x.N, x.T)}
		for _, br := range xt.Brs {
			y := g.fresh("y")
			if g.Chance(15, "rebind") {
				y = x.N // case x (l<x> => …)
				g.feat("rebinds-consumed-name")
			}
			t.Brs = append(t.Brs, ast.Branch{Label: br.L, Payload: ast.N(y), K: g.Term(append(append([]Var{}, rest...), Var{y, br.T}), A)})
		}
		g.shuffleBranches(t)
		return t
	case ast.KDown:
		g.feat("downL")
		y := g.fresh("y")
		if g.Chance(15, "rebind") {
			y = x.N // x <- shift x
			g.feat("rebinds-consumed-name")
		}
		return &ast.Term{Kind: ast.TShift, X: ast.N(y), Z: g.nm(x.N, x.T), K: g.Term(append(rest, Var{y, xt.L}), A)}
	case ast.KLolli:
		g.feat("lolliL")
		var pre []*ast.Term
		var b string
		found := -1
		for j, v := range rest {
			if g.Env.Equal(v.T, xt.L) {
				found = j
				break
			}
		}
		if found >= 0 && g.Likely(60, "usearg") {
			b = rest[found].N
			rest = without(rest, found)
		} else {
			var c1 *ast.Term
			b, c1 = g.mk(xt.L)
			pre = append(pre, c1)
		}
		n := g.fresh("r")
		cut := &ast.Term{Kind: ast.TNew, X: ast.N(n), Ann: g.ann(xt.R), Body: &ast.Term{Kind: ast.TSend, X: g.nm(x.N, x.T), Y: g.nm(b, xt.L), Z: ast.SelfNm}}
		pre = append(pre, cut)
		return seq(pre, g.Term(append(rest, Var{n, xt.R}), A))
	case ast.KWith:
		g.feat("withL")
		br := xt.Brs[g.Pick(len(xt.Brs), "withbr")]
		n := g.fresh("r")
		cut := &ast.Term{Kind: ast.TNew, X: ast.N(n), Ann: g.ann(br.T), Body: &ast.Term{Kind: ast.TSel, X: g.nm(x.N, x.T), Label: br.L, Y: ast.SelfNm}}
		cut.K = g.Term(append(rest, Var{n, br.T}), A)
		return cut
	case ast.KUp:
		if ast.Geq(xt.L.M, am) {
			g.feat("upL")
			n := g.fresh("r")
			cut := &ast.Term{Kind: ast.TNew, X: ast.N(n), Ann: g.ann(xt.L), Body: &ast.Term{Kind: ast.TCast, X: g.nm(x.N, x.T), Y: ast.SelfNm}}
			cut.K = g.Term(append(rest, Var{n, xt.L}), A)
			return cut
		}
		if x.T.M.W() {
			g.feat("drop")
			return &ast.Term{Kind: ast.TDrop, X: g.polNm(x.N, x.T), K: g.Term(rest, A)}
		}
		g.feat("dead-end-upshift")
		g.dead = true
		return nil
	}
	g.dead = true
	return nil
}

// NewProgGen prepares a generator over a fresh acyclic type environment.
func NewProgGen(d D) *ProgGen {
	tg := &TyGen{D: d, MaxDepth: 2, Acyclic: true}
	g := &ProgGen{D: d, TG: tg, budget: 30}
	g.HeavyPol = d.Chance(20, "heavypol")
	g.LocalNames = d.Chance(60, "localnames")
	g.UniformNames = g.LocalNames && d.Chance(50, "uniformnames")
	n := d.Int(0, 4, "ntypes")
	g.TypeDecl = tg.Env(n, "T")
	env, ill := reftypes.Resolve(g.TypeDecl)
	if ill != nil {
		g.dead = true
		return g
	}
	g.Env = env
	// named occurrences generated later must carry resolved modes: they do (Body sets M)
	return g
}

// Program generates a closed program: type definitions, functions, processes. Every top-level
// channel that nobody consumes has a positive type. Returns nil on a generator dead end.
func (g *ProgGen) Program() *ast.Program {
	if g.dead {
		return nil
	}
	np := g.Int(1, 3, "nprocs")
	for i := 0; i < np; i++ {
		m := g.TG.GenMode()
		// a value of a generated type, made by a function and consumed by the main process
		vt := g.genTy(g.TG.GenMode(), g.Int(1, 3, "valdepth"))
		if !ast.Geq(vt.M, m) {
			m = ast.Lin
		}
		one := ast.One(m)
		switch g.Pick(3, "shape") {
		case 0: // the value is a top-level process of its own, consumed by main
			pn := fmt.Sprintf("val%d", i)
			body := g.Term(nil, vt)
			g.Prcs = append(g.Prcs, &ast.Decl{Kind: ast.DPrc, Providers: []string{pn}, Ty: g.ann(vt), Body: body})
			main := g.Term([]Var{{pn, vt}}, one)
			g.Prcs = append(g.Prcs, &ast.Decl{Kind: ast.DPrc, Providers: []string{fmt.Sprintf("main%d", i)}, Ty: g.ann(one), Body: main})
			g.feat("prc-uses-prc")
		case 1: // multi-name provider (contractable types only): two consumers
			if vt.M.C() {
				a, b := fmt.Sprintf("val%da", i), fmt.Sprintf("val%db", i)
				body := g.Term(nil, vt)
				g.Prcs = append(g.Prcs, &ast.Decl{Kind: ast.DPrc, Providers: []string{a, b}, Ty: g.ann(vt), Body: body})
				g.Prcs = append(g.Prcs, &ast.Decl{Kind: ast.DPrc, Providers: []string{fmt.Sprintf("main%da", i)}, Ty: g.ann(one), Body: g.Term([]Var{{a, vt}}, one)})
				g.Prcs = append(g.Prcs, &ast.Decl{Kind: ast.DPrc, Providers: []string{fmt.Sprintf("main%db", i)}, Ty: g.ann(one), Body: g.Term([]Var{{b, vt}}, one)})
				g.feat("multi-name-prc")
				break
			}
			fallthrough
		default:
			f := g.newFun(nil, vt)
			v := g.fresh("m")
			cut := &ast.Term{Kind: ast.TNew, X: ast.N(v), Body: &ast.Term{Kind: ast.TCall, Fn: f.Name}}
			cut.K = g.Term([]Var{{v, vt}}, one)
			g.Prcs = append(g.Prcs, &ast.Decl{Kind: ast.DPrc, Providers: []string{fmt.Sprintf("main%d", i)}, Ty: g.ann(one), Body: cut})
		}
	}
	if g.Chance(15, "exec") {
		// exec of a nullary function providing a positive type
		m := g.TG.GenMode()
		f := g.newFun(nil, ast.One(m))
		g.Prcs = append(g.Prcs, &ast.Decl{Kind: ast.DExec, Name: f.Name})
		g.feat("exec")
	}
	if g.Recursive {
		if g.Chance(55, "natscenario") {
			g.scoped(func() { g.natScenario(0) })
		}
		if g.Chance(45, "serverscenario") {
			g.scoped(func() { g.serverScenario(0) })
		}
		if g.Chance(40, "counterscenario") {
			g.scoped(func() { g.counterScenario(0) })
		}
		if g.Chance(35, "relayscenario") {
			g.scoped(func() { g.relayScenario(0) })
		}
		if g.Chance(50, "sessionscenario") {
			g.scoped(func() { g.sessionScenario(0) })
		}
	}
	if g.dead {
		return nil
	}
	p := &ast.Program{}
	p.Decls = append(p.Decls, g.TypeDecl...)
	p.Decls = append(p.Decls, g.Funs...)
	p.Decls = append(p.Decls, g.Prcs...)
	return p
}
