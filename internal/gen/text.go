package gen

import (
	"strconv"
	"fmt"
	"strings"

	"pgregory.net/rapid"
)

var soupTokens = []string{"type", "let", "prc", "exec", "assuming", "send", "recv", "receive", "case", "close", "wait", "cast",
	"shift", "drop", "split", "new", "fwd", "forward", "self", "print", "<-", "=>", "=", "<", ">", "(", ")", "[", "]", "{", "}",
	".", ";", ":", "|", ",", "+", "-", "-*", "-o", "*", "&", "%", "1", "/\\", "\\/", "/", "\\", "//", "/*", "*/", "a", "b", "x", "A",
	"nat", "lin", "aff", "rep", "mul", "l", "f", "x'", "_", "'", "1x", "acc", "acq", "det", "rel", "push", "snew", "in", "end", "sprc",
	"@", "#", "$", "~", "^", "!", "?", "\"", "`", "€", "\x00", "\xff", "\n", " ", "\t"}

var hostileTails = []string{"/*", "/* unterminated", "/**", "/* a * b", "//", "// tail", "/", "\\", "-", "<", "=", "*", "(", "{", "[", "\x00", "\xc3", "x <- new", "prc[", "type A =", "1", "/\\", "\\/", "/* */ /*"}

// Scale describes an input of the shape Prefix + Open^n + Mid + Close^n + Suffix, so that the
// same shape can be rebuilt at another size (used to tell super-linear parsing from a slow machine).
type Scale struct {
	Prefix, Open, Mid, Close, Suffix string
	Count                            int
	Numbered                         bool // every '#' in the i-th copy of Open / Close is replaced by i: n distinct identifiers
}

func (s *Scale) Build(n int) string {
	if !s.Numbered {
		return s.Prefix + strings.Repeat(s.Open, n) + s.Mid + strings.Repeat(s.Close, n) + s.Suffix
	}
	var sb strings.Builder
	sb.WriteString(s.Prefix)
	for i := 0; i < n; i++ {
		sb.WriteString(strings.ReplaceAll(s.Open, "#", strconv.Itoa(i)))
	}
	sb.WriteString(s.Mid)
	for i := n - 1; i >= 0; i-- {
		sb.WriteString(strings.ReplaceAll(s.Close, "#", strconv.Itoa(i)))
	}
	sb.WriteString(s.Suffix)
	return sb.String()
}

// Text generates arbitrary byte strings (G-text in DESIGN.md). base supplies a grammatical
// program text to damage (may be "").
func (d D) Text(base func() string) (string, string) {
	t, k, _ := d.TextScaled(base)
	return t, k
}

// TextScaled is Text plus, for the size-driven kinds, the description of how the input scales.
func (d D) TextScaled(base func() string) (string, string, *Scale) {
	t, k, sc := d.textScaled(base)
	if sc != nil {
		t = sc.Build(sc.Count)
	}
	return t, k, sc
}

func (d D) textScaled(base func() string) (string, string, *Scale) {
	switch d.Pick(9, "textkind") {
	case 0:
		b := rapid.SliceOfN(rapid.Byte(), 0, 400).Draw(d.T, "bytes")
		return string(b), "random-bytes", nil
	case 1:
		n := d.Int(1, 120, "ntok")
		var sb strings.Builder
		for i := 0; i < n; i++ {
			sb.WriteString(d.Of(soupTokens, "tok"))
			if d.Chance(70, "sp") {
				sb.WriteString(" ")
			}
		}
		return sb.String(), "token-soup", nil
	case 2: // truncated program
		s := base()
		if len(s) == 0 {
			return s, "empty", nil
		}
		return s[:d.Int(0, len(s), "cut")], "truncated", nil
	case 3: // program with a hostile tail
		return base() + d.Of(hostileTails, "tail"), "hostile-tail", nil
	case 4: // span operations
		s := base()
		if len(s) < 2 {
			return s, "short", nil
		}
		i := d.Int(0, len(s)-1, "i")
		j := d.Int(i, min(len(s), i+40), "j")
		switch d.Pick(3, "spanop") {
		case 0:
			return s[:i] + s[j:], "span-deleted", nil
		case 1:
			return s[:j] + s[i:j] + s[j:], "span-duplicated", nil
		default:
			return s[:i] + d.Of(soupTokens, "ins") + s[i:], "token-inserted", nil
		}
	case 5: // deep nesting
		n := d.Int(1, 3000, "depth")
		open, close := "(", ")"
		switch d.Pick(4, "nestkind") {
		case 1:
			return "", "deep-type-parens", &Scale{Prefix: "type A = ", Open: "(", Mid: "1", Close: ")", Count: n}
		case 2:
			return "", "deep-choice", &Scale{Prefix: "type A = ", Open: "+{l : ", Mid: "1", Close: "}", Count: n}
		case 3:
			return "", "long-product", &Scale{Prefix: "type A = ", Open: "1 * ", Mid: "1", Count: n}
		}
		if d.Chance(30, "unbalanced") {
			s := "prc[a] : 1 = " + strings.Repeat(open, n) + "close self" + strings.Repeat(close, n)
			return s[:len(s)-d.Int(1, n, "drop")], "deep-term-parens-unbalanced", nil
		}
		return "", "deep-term-parens", &Scale{Prefix: "prc[a] : 1 = ", Open: open, Mid: "close self", Close: close, Count: n}
	case 6: // large input
		s := base()
		if s == "" {
			s = "type A = 1\n"
		}
		n := d.Int(2, 1+200000/(len(s)+1), "repeat")
		if n > 4000 {
			n = 4000
		}
		return "", "large", &Scale{Open: s, Count: n}
	case 7: // long identifier / many branches
		n := d.Int(1, 20000, "len")
		switch d.Pick(4, "longkind") {
		case 3:
			// a chain of definitions, each mentioning the next one twice: the type DAG has depth n
			k := 2 + n%40
			var sb strings.Builder
			for i := 0; i < k; i++ {
				fmt.Fprintf(&sb, "type A%d = A%d %s A%d\n", i, i+1, d.Of([]string{"*", "-*"}, "op"), i+1)
			}
			fmt.Fprintf(&sb, "type A%d = 1\n", k)
			return sb.String(), "definition-chain", nil
		case 0:
			if d.Chance(60, "distinct") {
				// n distinct identifiers in one list-like construct
				m := 1 + n%3000
				switch d.Pick(9, "distinctkind") {
				case 0:
					return "", "many-distinct-waits", &Scale{Prefix: "prc[a] : 1 = ", Open: "wait x#; ", Suffix: "close self", Count: m, Numbered: true}
				case 1:
					// (this shape is the known finding N17, cubic in time: kept small enough that the
					// scaling experiment at 4n stays within seconds)
					return "", "many-distinct-waits-two-providers", &Scale{Prefix: "prc[a, b] : 1 = ", Open: "wait x#; ", Suffix: "close self", Count: 1 + m%400, Numbered: true}
				case 2:
					return "", "many-processes", &Scale{Open: "prc[x#] : 1 = close self\n", Count: m, Numbered: true}
				case 3:
					return "", "many-type-definitions", &Scale{Open: "type A# = 1\n", Count: m, Numbered: true}
				case 4:
					return "", "many-functions", &Scale{Open: "let f#() : 1 = close self\n", Count: m, Numbered: true}
				case 5:
					return "", "many-parameters", &Scale{Prefix: "let f(x : 1", Open: ", x# : 1", Suffix: ") : 1 = close self", Count: m, Numbered: true}
				case 6:
					return "", "many-distinct-branches", &Scale{Prefix: "type A = +{l : 1", Open: ", l# : 1", Suffix: "}", Count: m, Numbered: true}
				case 7:
					return "", "many-distinct-case-branches", &Scale{Prefix: "prc[a] : 1 = case x (l<y> => close self", Open: " | l#<y#> => close self", Suffix: ")", Count: m, Numbered: true}
				default:
					return "", "many-cuts-of-distinct-names", &Scale{Prefix: "let u() : 1 = close self\nprc[a] : 1 = ", Open: "x# <- new u(); ", Mid: "", Close: "wait x#; ", Suffix: "close self", Count: m, Numbered: true}
				}
			}
			return "", "long-identifier", &Scale{Prefix: "type ", Open: "a", Suffix: " = 1", Count: n}
		case 1:
			return "", "many-arguments", &Scale{Prefix: "prc[a] : 1 = f(x", Open: ", x", Suffix: ")", Count: n % 6000}
		}
		return "", "many-branches", &Scale{Prefix: "type A = +{l : 1", Open: ", l : 1", Suffix: "}", Count: n % 6000}
	default: // comments in odd places
		s := base()
		i := d.Int(0, len(s), "ci")
		c := d.Of([]string{"/*", "/* x", "//", "/* */", "/* * / */", "/*/", "/**/", "/***/", "/* // */", "// /*\n"}, "c")
		return s[:i] + c + s[i:], "comment-inserted", nil
	}
}

func min(a, b int) int {
	if a < b {
		return a
	}
	return b
}

// Tokens splits printer output (which contains no comments) into Grits tokens.
func Tokens(s string) []string {
	var out []string
	isId := func(c byte) bool {
		return c == '_' || c == '\'' || (c >= '0' && c <= '9') || (c >= 'a' && c <= 'z') || (c >= 'A' && c <= 'Z')
	}
	for i := 0; i < len(s); {
		c := s[i]
		switch {
		case c == ' ' || c == '\n' || c == '\t' || c == '\r':
			i++
		case isId(c):
			j := i
			for j < len(s) && isId(s[j]) {
				j++
			}
			out = append(out, s[i:j])
			i = j
		case i+1 < len(s) && (s[i:i+2] == "<-" || s[i:i+2] == "=>" || s[i:i+2] == "-*" || s[i:i+2] == "/\\" || s[i:i+2] == "\\/"):
			out = append(out, s[i:i+2])
			i += 2
		default:
			out = append(out, string(c))
			i++
		}
	}
	return out
}

// IllegalMaterial is text that can never occur between two tokens of a grammatical program.
var IllegalMaterial = []string{"@", "#", "$", "~", "^", "!", "?", "\"", "`", "€", "\x00", "\\", "/", "%", ")", "}", "]",
	"push", "snew", "in", "end", "sprc", "acquire", "acc", "release", "detach", "\xff", "é", "§", "\x7f", "\x1b"}
