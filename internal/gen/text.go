package gen

import (
	"strings"

	"pgregory.net/rapid"
)

var soupTokens = []string{"type", "let", "prc", "exec", "assuming", "send", "recv", "receive", "case", "close", "wait", "cast",
	"shift", "drop", "split", "new", "fwd", "forward", "self", "print", "<-", "=>", "=", "<", ">", "(", ")", "[", "]", "{", "}",
	".", ";", ":", "|", ",", "+", "-", "-*", "-o", "*", "&", "%", "1", "/\\", "\\/", "/", "\\", "//", "/*", "*/", "a", "b", "x", "A",
	"nat", "lin", "aff", "rep", "mul", "l", "f", "x'", "_", "'", "1x", "acc", "acq", "det", "rel", "push", "snew", "in", "end", "sprc",
	"@", "#", "$", "~", "^", "!", "?", "\"", "`", "€", "\x00", "\xff", "\n", " ", "\t"}

var hostileTails = []string{"/*", "/* unterminated", "/**", "/* a * b", "//", "// tail", "/", "\\", "-", "<", "=", "*", "(", "{", "[", "\x00", "\xc3", "x <- new", "prc[", "type A =", "1", "/\\", "\\/", "/* */ /*"}

// Text generates arbitrary byte strings (G-text in DESIGN.md). base supplies a grammatical
// program text to damage (may be "").
func (d D) Text(base func() string) (string, string) {
	switch d.Pick(9, "textkind") {
	case 0:
		b := rapid.SliceOfN(rapid.Byte(), 0, 400).Draw(d.T, "bytes")
		return string(b), "random-bytes"
	case 1:
		n := d.Int(1, 120, "ntok")
		var sb strings.Builder
		for i := 0; i < n; i++ {
			sb.WriteString(d.Of(soupTokens, "tok"))
			if d.Chance(70, "sp") {
				sb.WriteString(" ")
			}
		}
		return sb.String(), "token-soup"
	case 2: // truncated program
		s := base()
		if len(s) == 0 {
			return s, "empty"
		}
		return s[:d.Int(0, len(s), "cut")], "truncated"
	case 3: // program with a hostile tail
		return base() + d.Of(hostileTails, "tail"), "hostile-tail"
	case 4: // span operations
		s := base()
		if len(s) < 2 {
			return s, "short"
		}
		i := d.Int(0, len(s)-1, "i")
		j := d.Int(i, min(len(s), i+40), "j")
		switch d.Pick(3, "spanop") {
		case 0:
			return s[:i] + s[j:], "span-deleted"
		case 1:
			return s[:j] + s[i:j] + s[j:], "span-duplicated"
		default:
			return s[:i] + d.Of(soupTokens, "ins") + s[i:], "token-inserted"
		}
	case 5: // deep nesting
		n := d.Int(1, 3000, "depth")
		open, close := "(", ")"
		switch d.Pick(4, "nestkind") {
		case 1:
			return "type A = " + strings.Repeat("(", n) + "1" + strings.Repeat(")", n), "deep-type-parens"
		case 2:
			return "type A = " + strings.Repeat("+{l : ", n) + "1" + strings.Repeat("}", n), "deep-choice"
		case 3:
			return "type A = " + strings.Repeat("1 * ", n) + "1", "long-product"
		}
		s := "prc[a] : 1 = " + strings.Repeat(open, n) + "close self" + strings.Repeat(close, n)
		if d.Chance(30, "unbalanced") {
			s = s[:len(s)-d.Int(1, n, "drop")]
		}
		return s, "deep-term-parens"
	case 6: // large input
		s := base()
		if s == "" {
			s = "type A = 1\n"
		}
		n := d.Int(2, 1+200000/(len(s)+1), "repeat")
		if n > 4000 {
			n = 4000
		}
		return strings.Repeat(s, n), "large"
	case 7: // long identifier / many branches
		n := d.Int(1, 20000, "len")
		if d.Bool("ident") {
			return "type " + strings.Repeat("a", n) + " = 1", "long-identifier"
		}
		var sb strings.Builder
		sb.WriteString("type A = +{")
		for i := 0; i < n%3000; i++ {
			if i > 0 {
				sb.WriteString(", ")
			}
			sb.WriteString("l")
			sb.WriteString(strings.Repeat("x", i%7))
			sb.WriteString(" : 1")
		}
		sb.WriteString("}")
		return sb.String(), "many-branches"
	default: // comments in odd places
		s := base()
		i := d.Int(0, len(s), "ci")
		c := d.Of([]string{"/*", "/* x", "//", "/* */", "/* * / */", "/*/", "/**/", "/***/", "/* // */", "// /*\n"}, "c")
		return s[:i] + c + s[i:], "comment-inserted"
	}
}

func min(a, b int) int {
	if a < b {
		return a
	}
	return b
}

// Tokens splits printer output (which contains no comments) into Grits tokens.
func Tokens(s string) []string {
	var out []string
	isId := func(c byte) bool {
		return c == '_' || c == '\'' || (c >= '0' && c <= '9') || (c >= 'a' && c <= 'z') || (c >= 'A' && c <= 'Z')
	}
	for i := 0; i < len(s); {
		c := s[i]
		switch {
		case c == ' ' || c == '\n' || c == '\t' || c == '\r':
			i++
		case isId(c):
			j := i
			for j < len(s) && isId(s[j]) {
				j++
			}
			out = append(out, s[i:j])
			i = j
		case i+1 < len(s) && (s[i:i+2] == "<-" || s[i:i+2] == "=>" || s[i:i+2] == "-*" || s[i:i+2] == "/\\" || s[i:i+2] == "\\/"):
			out = append(out, s[i:i+2])
			i += 2
		default:
			out = append(out, string(c))
			i++
		}
	}
	return out
}

// IllegalMaterial is text that can never occur between two tokens of a grammatical program.
var IllegalMaterial = []string{"@", "#", "$", "~", "^", "!", "?", "\"", "`", "€", "\x00", "\\", "/", "%", ")", "}", "]",
	"push", "snew", "in", "end", "sprc", "acquire", "acc", "release", "detach", "\xff", "é", "§", "\x7f", "\x1b"}
