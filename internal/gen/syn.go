// Package gen holds the rapid generators (all randomness comes from rapid draws).
package gen

import (
	"fmt"
	"strings"

	"pgregory.net/rapid"

	"verif/internal/ast"
)

// D wraps the rapid source with a few convenience draws.
type D struct {
	T *rapid.T
}

func (d D) Int(lo, hi int, label string) int {
	if hi <= lo {
		return lo
	}
	return rapid.IntRange(lo, hi).Draw(d.T, label)
}

func (d D) Pick(n int, label string) int { return d.Int(0, n-1, label) }

// Chance is true with probability pct%; a shrunk draw (0) means false, so optional features
// disappear while shrinking.
func (d D) Chance(pct int, label string) bool { return d.Int(0, 99, label) >= 100-pct }

// Likely is true with probability pct%; a shrunk draw (0) means true (use it when the true
// branch is the simpler one).
func (d D) Likely(pct int, label string) bool { return d.Int(0, 99, label) < pct }

func (d D) Of(xs []string, label string) string { return xs[d.Pick(len(xs), label)] }

func (d D) Bool(label string) bool { return rapid.Bool().Draw(d.T, label) }

// ---------- G-syn: syntactically valid, otherwise arbitrary programs ----------

var synNames = []string{"a", "b", "c", "x", "y", "z", "w", "u", "v'", "x1", "_t"}
var synLabels = []string{"l", "r", "zero", "succ", "nil", "cons", "a", "ok"}
var synTypes = []string{"A", "B", "C", "nat", "T"}
var synFuns = []string{"f", "g", "h", "main"}
var synModeWords = []string{"r", "rep", "replicable", "m", "mul", "multicast", "a", "aff", "affine", "l", "lin", "linear", "LIN", "Aff", "foo", "shared"}

// Syn generates arbitrary grammatical programs (G-syn in DESIGN.md).
type Syn struct {
	D
	ValidModesOnly bool
	NoAssuming     bool
	NoPol          bool // no explicit polarity annotations
	NoCutAnn       bool // no type annotations on cuts
	depth          int
}

func (g *Syn) modeWord() string {
	if g.ValidModesOnly {
		return g.Of(synModeWords[:12], "modeword")
	}
	if g.Chance(90, "validmode") {
		return g.Of(synModeWords[:12], "modeword")
	}
	return g.Of(synModeWords, "modeword")
}

func (g *Syn) mode() ast.Mode { return ast.Mode(g.Pick(4, "mode")) }

// TyInit generates a type body (no head annotation); modes M are NOT resolved here (Unset).
func (g *Syn) TyInit(depth int) *ast.Ty {
	k := g.Pick(9, "tykind")
	if depth <= 0 && k != 8 {
		k = 0
	}
	t := &ast.Ty{M: ast.Unset}
	switch k {
	case 0, 1:
		t.K = ast.KOne
	case 2:
		t.K, t.L, t.R = ast.KTensor, g.TyInit(depth-1), g.TyInit(depth-1)
	case 3:
		t.K, t.L, t.R = ast.KLolli, g.TyInit(depth-1), g.TyInit(depth-1)
	case 4, 5:
		t.K = ast.KPlus
		if k == 5 {
			t.K = ast.KWith
		}
		n := g.Int(1, 3, "nbr")
		for i := 0; i < n; i++ {
			t.Brs = append(t.Brs, ast.Br{L: g.Of(synLabels, "label"), T: g.TyInit(depth - 1)})
		}
	case 6, 7:
		t.K = ast.KUp
		if k == 7 {
			t.K = ast.KDown
		}
		t.FromW, t.ToW = g.modeWord(), g.modeWord()
		t.L = g.TyInit(depth - 1)
	default:
		t.K, t.Name = ast.KName, g.Of(synTypes, "tyname")
	}
	if g.Chance(8, "paren") {
		t.Paren = true
	}
	return t
}

func (g *Syn) Ty(depth int) *ast.Ty {
	t := g.TyInit(depth)
	if g.Chance(45, "ann") {
		t.Ann = g.modeWord()
	}
	return t
}

func (g *Syn) name() ast.Nm {
	n := ast.Nm{}
	if g.Chance(30, "self") {
		n.Self = true
	} else {
		n.S = g.Of(synNames, "name")
	}
	if !g.NoPol && g.Chance(10, "pol") {
		n.Pol = 1
		if g.Bool("neg") {
			n.Pol = -1
		}
	}
	return n
}

func (g *Syn) binder() ast.Nm {
	n := ast.Nm{S: g.Of(synNames, "binder")}
	if g.Chance(4, "bself") {
		n = ast.SelfNm
	}
	if !g.NoPol && g.Chance(5, "bpol") {
		n.Pol = 1
	}
	return n
}

// Term generates an arbitrary grammatical term.
func (g *Syn) Term(depth int) *ast.Term {
	k := g.Pick(14, "termkind")
	if depth <= 0 {
		k = []int{0, 2, 5, 6, 7, 10}[g.Pick(6, "leafkind")]
	}
	t := &ast.Term{Kind: ast.TermKind(k)}
	switch t.Kind {
	case ast.TSend:
		t.X, t.Y, t.Z = g.name(), g.name(), g.name()
	case ast.TRecv, ast.TSplit:
		t.X, t.Y, t.Z = g.binder(), g.binder(), g.name()
		t.K = g.Term(depth - 1)
	case ast.TSel:
		t.X, t.Y, t.Label = g.name(), g.name(), g.Of(synLabels, "label")
	case ast.TCase:
		t.X = g.name()
		n := g.Int(0, 3, "nbranch")
		for i := 0; i < n; i++ {
			t.Brs = append(t.Brs, ast.Branch{Label: g.Of(synLabels, "label"), Payload: g.binder(), K: g.Term(depth - 1)})
		}
	case ast.TNew:
		t.X = g.binder()
		if !g.NoCutAnn && g.Chance(50, "newann") {
			t.X.Pol, t.X.Self = 0, false
			if t.X.S == "" {
				t.X.S = "x"
			}
			t.Ann = g.Ty(2)
		}
		if g.Chance(85, "axiombody") {
			t.Body = g.Term(0)
		} else {
			t.Body = g.Term(depth - 1)
		}
		t.K = g.Term(depth - 1)
	case ast.TCall:
		t.Fn = g.Of(synFuns, "fn")
		n := g.Int(0, 3, "nargs")
		for i := 0; i < n; i++ {
			t.Args = append(t.Args, g.name())
		}
	case ast.TClose:
		t.X = g.name()
	case ast.TFwd:
		t.X, t.Y = g.name(), g.name()
	case ast.TWait, ast.TDrop:
		t.X = g.name()
		t.K = g.Term(depth - 1)
	case ast.TCast:
		t.X, t.Y = g.name(), g.name()
	case ast.TShift:
		t.X, t.Z = g.binder(), g.name()
		t.K = g.Term(depth - 1)
	case ast.TPrint:
		t.Label = g.Of(synLabels, "plabel")
		t.K = g.Term(depth - 1)
	}
	if g.Chance(5, "tparen") {
		t.Paren = true
	}
	return t
}

func (g *Syn) params(max int) []ast.Param {
	n := g.Int(0, max, "nparams")
	var ps []ast.Param
	for i := 0; i < n; i++ {
		p := ast.Param{Name: g.Of(synNames, "pname")}
		if g.Chance(92, "ptyped") {
			p.Ty = g.Ty(2)
		}
		ps = append(ps, p)
	}
	return ps
}

func (g *Syn) Decl() *ast.Decl {
	k := g.Pick(10, "declkind")
	switch {
	case k < 3:
		return &ast.Decl{Kind: ast.DType, Name: g.Of(synTypes, "tname"), Ty: g.Ty(3)}
	case k < 6:
		d := &ast.Decl{Kind: ast.DFun, Name: g.Of(synFuns, "fname"), Params: g.params(3), Body: g.Term(4)}
		if g.Chance(93, "ftyped") {
			d.Ty = g.Ty(3)
		}
		if g.Chance(15, "explicit") {
			d.Explicit = g.Of(synNames, "explicit")
		}
		return d
	case k < 9:
		d := &ast.Decl{Kind: ast.DPrc, Body: g.Term(4)}
		n := 1
		if g.Chance(15, "multiprov") {
			n = g.Int(2, 3, "nprov")
		}
		for i := 0; i < n; i++ {
			d.Providers = append(d.Providers, g.Of(synNames, "prov"))
		}
		if g.Chance(93, "ptyped") {
			d.Ty = g.Ty(3)
		}
		return d
	default:
		if g.NoAssuming || g.Chance(60, "exec") {
			return &ast.Decl{Kind: ast.DExec, Name: g.Of(synFuns, "execfn")}
		}
		ps := g.params(2)
		if len(ps) == 0 {
			ps = []ast.Param{{Name: "q", Ty: g.Ty(1)}}
		}
		return &ast.Decl{Kind: ast.DAssume, Params: ps}
	}
}

func (g *Syn) Program() *ast.Program {
	n := g.Int(1, 6, "ndecls")
	p := &ast.Program{}
	for i := 0; i < n; i++ {
		p.Decls = append(p.Decls, g.Decl())
	}
	return p
}

// ---------- trivia: whitespace and comments that must not change anything ----------

var commentBodies = []string{"", " note ", "*", " a*b ", " / ", "// nested", " prc[x] : 1 = close self ", " * / ", "**", " type A = 1 ", "/", " x */ y"}

// Trivia returns whitespace or a comment that is safe between any two tokens.
func (d D) Trivia() string {
	switch d.Pick(6, "trivia") {
	case 0:
		return " "
	case 1:
		return "\n"
	case 2:
		return "\t \r\n"
	case 3:
		b := d.Of(commentBodies, "cbody")
		if strings.Contains(b, "*/") {
			b = strings.ReplaceAll(b, "*/", "* /")
		}
		return "/*" + b + "*/"
	case 4:
		b := d.Of(commentBodies, "lbody")
		b = strings.ReplaceAll(b, "\n", " ")
		return "//" + b + "\n"
	default:
		return "  "
	}
}

func Describe(p *ast.Program) string {
	c := map[ast.DeclKind]int{}
	for _, d := range p.Decls {
		c[d.Kind]++
	}
	return fmt.Sprintf("types=%d funs=%d prc=%d exec=%d assuming=%d", c[ast.DType], c[ast.DFun], c[ast.DPrc], c[ast.DExec], c[ast.DAssume])
}
