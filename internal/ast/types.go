// Package ast is the harness-side syntax of Grits programs: types, terms, declarations and
// printers. It shares nothing with the code under test.
package ast

import (
	"strings"
)

type Mode int

const (
	Unset Mode = iota - 1
	Rep
	Mul
	Aff
	Lin
)

var ModeShort = []string{"rep", "mul", "aff", "lin"}

func (m Mode) String() string {
	if m < 0 || int(m) >= len(ModeShort) {
		return "unset"
	}
	return ModeShort[m]
}

// Spellings of each mode accepted by the documented grammar.
var ModeSpellings = [][]string{
	{"r", "rep", "replicable"},
	{"m", "mul", "multicast"},
	{"a", "aff", "affine"},
	{"l", "lin", "linear"},
}

func ModeOfWord(w string) (Mode, bool) {
	w = strings.ToLower(w)
	for m, ss := range ModeSpellings {
		for _, s := range ss {
			if s == w {
				return Mode(m), true
			}
		}
	}
	return Unset, false
}

func (m Mode) W() bool { return m == Rep || m == Aff }
func (m Mode) C() bool { return m == Rep || m == Mul }

// Geq: m >= k in the mode preorder (m can be down-shifted to k).
func Geq(m, k Mode) bool { return m == k || m == Rep || k == Lin }

type Kind int

const (
	KOne Kind = iota
	KTensor
	KLolli
	KPlus
	KWith
	KUp
	KDown
	KName
)

var KindName = []string{"one", "send", "recv", "plus", "with", "up", "down", "name"}

type Br struct {
	L string
	T *Ty
}

// Ty is a session type as written (mode words, optional head annotation) together with the
// resolved mode M of each node (filled by the generator or by reftypes.Resolve).
//
// Shifts: `FromW /\ ToW C` is a type at mode To whose continuation C lives at mode From.
type Ty struct {
	K     Kind
	M     Mode   // resolved mode of this node (for shifts: the To mode)
	L, R  *Ty    // Tensor/Lolli operands; Up/Down: L is the continuation
	Brs   []Br   // Plus/With
	Name  string // KName
	Ann   string // head annotation word as written ("" = none); only meaningful at the root of a written type
	FromW string // shifts: mode words as written
	ToW   string
	Paren bool // print redundant parentheses around this node
}

func One(m Mode) *Ty             { return &Ty{K: KOne, M: m} }
func Tensor(m Mode, l, r *Ty) *Ty { return &Ty{K: KTensor, M: m, L: l, R: r} }
func Lolli(m Mode, l, r *Ty) *Ty  { return &Ty{K: KLolli, M: m, L: l, R: r} }
func Plus(m Mode, b ...Br) *Ty    { return &Ty{K: KPlus, M: m, Brs: b} }
func With(m Mode, b ...Br) *Ty    { return &Ty{K: KWith, M: m, Brs: b} }
func NameTy(m Mode, n string) *Ty { return &Ty{K: KName, M: m, Name: n} }

// Up builds `c.M /\ to c`.
func Up(to Mode, c *Ty) *Ty { return &Ty{K: KUp, M: to, L: c, FromW: c.M.String(), ToW: to.String()} }

// Down builds `c.M \/ to c`.
func Down(to Mode, c *Ty) *Ty {
	return &Ty{K: KDown, M: to, L: c, FromW: c.M.String(), ToW: to.String()}
}

func (t *Ty) IsShift() bool { return t.K == KUp || t.K == KDown }

// Positive polarity: 1, *, +, \/ ; negative: -*, &, /\ . Names must be unfolded first.
func (t *Ty) Positive() bool {
	return t.K == KOne || t.K == KTensor || t.K == KPlus || t.K == KDown
}

// Clone is a deep copy.
func (t *Ty) Clone() *Ty {
	if t == nil {
		return nil
	}
	c := *t
	c.L, c.R = t.L.Clone(), t.R.Clone()
	if t.Brs != nil {
		c.Brs = make([]Br, len(t.Brs))
		for i, b := range t.Brs {
			c.Brs[i] = Br{b.L, b.T.Clone()}
		}
	}
	return &c
}

// body prints the type without its head annotation. pos: 0 top/right/branch, 1 left operand.
func (t *Ty) body(left bool) string {
	var s string
	needParen := false
	switch t.K {
	case KOne:
		s = "1"
	case KName:
		s = t.Name
	case KTensor, KLolli:
		op := " * "
		if t.K == KLolli {
			op = " -* "
		}
		s = t.L.body(true) + op + t.R.body(false)
		needParen = left
	case KPlus, KWith:
		c := "+"
		if t.K == KWith {
			c = "&"
		}
		var bs []string
		for _, b := range t.Brs {
			bs = append(bs, b.L+" : "+b.T.body(false))
		}
		s = c + "{" + strings.Join(bs, ", ") + "}"
	case KUp:
		s = t.fromWord() + " /\\ " + t.toWord() + " " + t.L.body(false)
		needParen = left
	case KDown:
		s = t.fromWord() + " \\/ " + t.toWord() + " " + t.L.body(false)
		needParen = left
	}
	if needParen || t.Paren {
		return "(" + s + ")"
	}
	return s
}

func (t *Ty) fromWord() string {
	if t.FromW != "" {
		return t.FromW
	}
	return t.L.M.String()
}

func (t *Ty) toWord() string {
	if t.ToW != "" {
		return t.ToW
	}
	return t.M.String()
}

// Text prints the type as written: head annotation (if any) followed by the body.
func (t *Ty) Text() string {
	if t.Ann != "" {
		if t.IsShift() {
			return t.Ann + " (" + strings.TrimSuffix(strings.TrimPrefix(t.body(true), "("), ")") + ")"
		}
		return t.Ann + " " + t.body(false)
	}
	return t.body(false)
}

// Annotated prints the type with an explicit head annotation of its resolved mode (never on a
// shift, whose mode is explicit anyway).
func (t *Ty) Annotated() string {
	if t.IsShift() || t.M == Unset {
		return t.body(false)
	}
	return t.M.String() + " " + t.body(false)
}

// Size counts nodes.
func (t *Ty) Size() int {
	if t == nil {
		return 0
	}
	n := 1 + t.L.Size() + t.R.Size()
	for _, b := range t.Brs {
		n += b.T.Size()
	}
	return n
}

// Walk visits every node (pre-order).
func (t *Ty) Walk(f func(*Ty)) {
	if t == nil {
		return
	}
	f(t)
	t.L.Walk(f)
	t.R.Walk(f)
	for _, b := range t.Brs {
		b.T.Walk(f)
	}
}

var Keywords = map[string]bool{"send": true, "recv": true, "receive": true, "case": true, "close": true, "wait": true,
	"cast": true, "shift": true, "accept": true, "acc": true, "acquire": true, "acq": true, "detach": true, "det": true,
	"release": true, "rel": true, "drop": true, "split": true, "push": true, "new": true, "snew": true, "forward": true,
	"fwd": true, "type": true, "let": true, "in": true, "end": true, "sprc": true, "prc": true, "self": true,
	"assuming": true, "exec": true, "print": true}

// Reserved reports identifiers a generator should not use as names: keywords, mode words, "1".
func Reserved(s string) bool {
	if Keywords[s] || s == "1" || s == "" || s == "o" {
		return true
	}
	if _, ok := ModeOfWord(s); ok {
		return true
	}
	return strings.HasPrefix(s, "exec")
}
