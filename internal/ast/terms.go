package ast

import (
	"fmt"
	"strings"
)

// Nm is an occurrence of a channel name in a term.
type Nm struct {
	S    string // spelling ("" with Self = the keyword self)
	Self bool   // written `self`
	Pol  int    // explicit polarity annotation: 0 none, +1 `+x`, -1 `-x`
}

func N(s string) Nm { return Nm{S: s} }

var SelfNm = Nm{Self: true}

func (n Nm) String() string {
	p := ""
	if n.Pol > 0 {
		p = "+"
	} else if n.Pol < 0 {
		p = "-"
	}
	if n.Self {
		return p + "self"
	}
	return p + n.S
}

type TermKind int

const (
	TSend   TermKind = iota // send X<Y, Z>
	TRecv                   // <X, Y> <- recv Z; K
	TSel                    // X.Label<Y>
	TCase                   // case X ( Brs )
	TNew                    // X [: Ann] <- new Body; K
	TCall                   // Fn(Args)
	TClose                  // close X
	TFwd                    // fwd X Y
	TSplit                  // <X, Y> <- split Z; K
	TWait                   // wait X; K
	TCast                   // cast X<Y>
	TShift                  // X <- shift Z; K
	TDrop                   // drop X; K
	TPrint                  // print Label; K
)

var TermKindName = []string{"send", "recv", "sel", "case", "new", "call", "close", "fwd", "split", "wait", "cast", "shift", "drop", "print"}

type Branch struct {
	Label   string
	Payload Nm
	K       *Term
}

type Term struct {
	Kind    TermKind
	X, Y, Z Nm
	Label   string
	Fn      string
	Args    []Nm
	Ann     *Ty // TNew: optional annotation
	Body    *Term
	K       *Term
	Brs     []Branch
	Paren   bool // print redundant parentheses
}

func (t *Term) Clone() *Term {
	if t == nil {
		return nil
	}
	c := *t
	c.Args = append([]Nm(nil), t.Args...)
	c.Ann = t.Ann.Clone()
	c.Body = t.Body.Clone()
	c.K = t.K.Clone()
	if t.Brs != nil {
		c.Brs = make([]Branch, len(t.Brs))
		for i, b := range t.Brs {
			c.Brs[i] = Branch{b.Label, b.Payload, b.K.Clone()}
		}
	}
	return &c
}

// HasContinuation mirrors the documented restriction on cut bodies (axioms and calls only).
func (t *Term) HasContinuation() bool {
	switch t.Kind {
	case TSend, TSel, TCall, TClose, TFwd, TCast:
		return false
	}
	return true
}

func (t *Term) Size() int {
	if t == nil {
		return 0
	}
	n := 1 + t.Body.Size() + t.K.Size()
	for _, b := range t.Brs {
		n += b.K.Size()
	}
	return n
}

// Walk visits all sub-terms pre-order.
func (t *Term) Walk(f func(*Term)) {
	if t == nil {
		return
	}
	f(t)
	t.Body.Walk(f)
	t.K.Walk(f)
	for _, b := range t.Brs {
		b.K.Walk(f)
	}
}

type Style struct {
	Indent  string
	OneLine bool
	AnnType func(*Ty) string // how annotation types are printed (default Text)
}

func (s *Style) ty(t *Ty) string {
	if s != nil && s.AnnType != nil {
		return s.AnnType(t)
	}
	return t.Text()
}

// ang prints a name right after '<' (a space keeps "<-x" from lexing as the arrow "<-").
func ang(n Nm) string {
	if n.Pol < 0 {
		return " " + n.String()
	}
	return n.String()
}

func (t *Term) Text(st *Style) string {
	var sb strings.Builder
	t.write(&sb, st, "    ")
	return sb.String()
}

func (t *Term) write(sb *strings.Builder, st *Style, ind string) {
	if t.Paren {
		sb.WriteString("(")
		defer sb.WriteString(")")
	}
	nl := "\n" + ind
	if st != nil && st.OneLine {
		nl = " "
	}
	switch t.Kind {
	case TSend:
		fmt.Fprintf(sb, "send %s<%s, %s>", t.X, ang(t.Y), t.Z)
	case TRecv:
		fmt.Fprintf(sb, "<%s, %s> <- recv %s;%s", ang(t.X), t.Y, t.Z, nl)
		t.K.write(sb, st, ind)
	case TSel:
		fmt.Fprintf(sb, "%s.%s<%s>", t.X, t.Label, ang(t.Y))
	case TCase:
		fmt.Fprintf(sb, "case %s (", t.X)
		for i, b := range t.Brs {
			if i > 0 {
				sb.WriteString(nl + "  | ")
			} else {
				sb.WriteString(nl + "    ")
			}
			fmt.Fprintf(sb, "%s<%s> => ", b.Label, ang(b.Payload))
			b.K.write(sb, st, ind+"      ")
		}
		sb.WriteString(")")
	case TNew:
		if t.Ann != nil {
			fmt.Fprintf(sb, "%s : %s <- new ", t.X.S, st.ty(t.Ann))
		} else {
			fmt.Fprintf(sb, "%s <- new ", t.X)
		}
		if t.Body.HasContinuation() && !t.Body.Paren {
			sb.WriteString("(")
			t.Body.write(sb, st, ind+"  ")
			sb.WriteString(")")
		} else {
			t.Body.write(sb, st, ind+"  ")
		}
		sb.WriteString(";" + nl)
		t.K.write(sb, st, ind)
	case TCall:
		var as []string
		for _, a := range t.Args {
			as = append(as, a.String())
		}
		fmt.Fprintf(sb, "%s(%s)", t.Fn, strings.Join(as, ", "))
	case TClose:
		fmt.Fprintf(sb, "close %s", t.X)
	case TFwd:
		fmt.Fprintf(sb, "fwd %s %s", t.X, t.Y)
	case TSplit:
		fmt.Fprintf(sb, "<%s, %s> <- split %s;%s", ang(t.X), t.Y, t.Z, nl)
		t.K.write(sb, st, ind)
	case TWait:
		fmt.Fprintf(sb, "wait %s;%s", t.X, nl)
		t.K.write(sb, st, ind)
	case TCast:
		fmt.Fprintf(sb, "cast %s<%s>", t.X, ang(t.Y))
	case TShift:
		fmt.Fprintf(sb, "%s <- shift %s;%s", t.X, t.Z, nl)
		t.K.write(sb, st, ind)
	case TDrop:
		fmt.Fprintf(sb, "drop %s;%s", t.X, nl)
		t.K.write(sb, st, ind)
	case TPrint:
		fmt.Fprintf(sb, "print %s;%s", t.Label, nl)
		t.K.write(sb, st, ind)
	}
}

// ---------- declarations ----------

type Param struct {
	Name string
	Ty   *Ty // nil = no annotation
}

type DeclKind int

const (
	DType DeclKind = iota
	DFun
	DPrc
	DExec
	DAssume
)

type Decl struct {
	Kind      DeclKind
	Name      string   // type / function name; exec: function name
	Ty        *Ty      // type body; function return type; process type (nil = omitted)
	Params    []Param  // function parameters; assuming names
	Explicit  string   // function: explicit provider name ("" = none)
	Providers []string // prc names
	Body      *Term
	Comment   string // printed before the declaration
}

type Program struct {
	Decls []*Decl
}

func (p *Program) Clone() *Program {
	q := &Program{}
	for _, d := range p.Decls {
		c := *d
		c.Ty = d.Ty.Clone()
		c.Params = make([]Param, len(d.Params))
		for i, pa := range d.Params {
			c.Params[i] = Param{pa.Name, pa.Ty.Clone()}
		}
		c.Providers = append([]string(nil), d.Providers...)
		c.Body = d.Body.Clone()
		q.Decls = append(q.Decls, &c)
	}
	return q
}

func (p *Program) Types() (out []*Decl) {
	for _, d := range p.Decls {
		if d.Kind == DType {
			out = append(out, d)
		}
	}
	return
}

func (p *Program) Funs() (out []*Decl) {
	for _, d := range p.Decls {
		if d.Kind == DFun {
			out = append(out, d)
		}
	}
	return
}

func (p *Program) Fun(name string) *Decl {
	for _, d := range p.Decls {
		if d.Kind == DFun && d.Name == name {
			return d
		}
	}
	return nil
}

func (p *Program) Procs() (out []*Decl) {
	for _, d := range p.Decls {
		if d.Kind == DPrc || d.Kind == DExec {
			out = append(out, d)
		}
	}
	return
}

func params(ps []Param, st *Style) string {
	var out []string
	for _, p := range ps {
		if p.Ty != nil {
			out = append(out, p.Name+" : "+st.ty(p.Ty))
		} else {
			out = append(out, p.Name)
		}
	}
	return strings.Join(out, ", ")
}

func (d *Decl) Text(st *Style) string {
	var sb strings.Builder
	if d.Comment != "" {
		sb.WriteString(d.Comment)
		if !strings.HasSuffix(d.Comment, "\n") {
			sb.WriteString("\n")
		}
	}
	sep := "\n    "
	if st != nil && st.OneLine {
		sep = " "
	}
	switch d.Kind {
	case DType:
		fmt.Fprintf(&sb, "type %s = %s", d.Name, d.Ty.Text())
	case DFun:
		if d.Explicit != "" {
			fmt.Fprintf(&sb, "let %s[%s", d.Name, d.Explicit)
			if d.Ty != nil {
				fmt.Fprintf(&sb, " : %s", st.ty(d.Ty))
			}
			if len(d.Params) > 0 {
				sb.WriteString(", " + params(d.Params, st))
			}
			sb.WriteString("] =" + sep)
		} else {
			fmt.Fprintf(&sb, "let %s(%s)", d.Name, params(d.Params, st))
			if d.Ty != nil {
				fmt.Fprintf(&sb, " : %s", st.ty(d.Ty))
			}
			sb.WriteString(" =" + sep)
		}
		sb.WriteString(d.Body.Text(st))
	case DPrc:
		fmt.Fprintf(&sb, "prc[%s]", strings.Join(d.Providers, ", "))
		if d.Ty != nil {
			fmt.Fprintf(&sb, " : %s", st.ty(d.Ty))
		}
		sb.WriteString(" =" + sep)
		sb.WriteString(d.Body.Text(st))
	case DExec:
		fmt.Fprintf(&sb, "exec %s()", d.Name)
	case DAssume:
		fmt.Fprintf(&sb, "assuming %s", params(d.Params, st))
	}
	return sb.String()
}

func (p *Program) Text(st *Style) string {
	var sb strings.Builder
	for _, d := range p.Decls {
		sb.WriteString(d.Text(st))
		sb.WriteString("\n")
	}
	return sb.String()
}
