// Package harness is the glue shared by all property tests: environment, shard report,
// worker handles, failure recording, replay files and known findings.
package harness

import (
	"encoding/json"
	"fmt"
	"os"
	"path/filepath"
	"strconv"
	"strings"
	"sync"
	"testing"
	"time"

	"pgregory.net/rapid"

	"verif/internal/pool"
	"verif/internal/report"
	"verif/internal/wire"
)

// Failure is the verdict of an oracle on one case (nil = property held).
type Failure struct {
	Msg   string
	Known string // id of a known finding this failure matches ("" = none)
	Inconclusive bool
}

func Failf(format string, a ...interface{}) *Failure {
	return &Failure{Msg: fmt.Sprintf(format, a...)}
}

type KnownEntry struct {
	Property string `json:"property"`
	ID       string `json:"id"`
	Status   string `json:"status"` // known | fixed
	Commit   string `json:"commit,omitempty"`
	What     string `json:"what"`
	Match    string `json:"match"` // human-readable description of the signature the classifier uses
}

type H struct {
	ID      string
	Tier    string
	Seed    int64
	ShardN  int
	Shards  int
	Root    string // /verif
	OutDir  string
	S       *report.Shard
	Replay  bool
	known   map[string]KnownEntry
	mu      sync.Mutex
	workers []*pool.Worker
	best    *report.Violation
	bestObj interface{}
	Race    bool
}

func env(k, d string) string {
	if v := os.Getenv(k); v != "" {
		return v
	}
	return d
}

// Open prepares the harness for property id. The shard file is written when the test ends.
func Open(t testing.TB, id string) *H {
	root := env("VERIF_ROOT", "/verif")
	seed, _ := strconv.ParseInt(env("VERIF_SEED", "1"), 10, 64)
	shard, _ := strconv.Atoi(env("VERIF_SHARD", "0"))
	shards, _ := strconv.Atoi(env("VERIF_SHARDS", "1"))
	out := env("VERIF_OUT", filepath.Join(root, "out", "shards"))
	os.MkdirAll(out, 0755)
	h := &H{ID: id, Tier: env("VERIF_TIER", "quick"), Seed: seed, ShardN: shard, Shards: shards, Root: root, OutDir: out,
		known: map[string]KnownEntry{}}
	h.S = report.New(id, h.Tier, seed, shard, filepath.Join(out, fmt.Sprintf("%s.shard%d.json", id, shard)))
	if b, err := os.ReadFile(filepath.Join(root, "known_findings.json")); err == nil {
		var ks []KnownEntry
		if err := json.Unmarshal(b, &ks); err == nil {
			for _, k := range ks {
				h.known[k.ID] = k
			}
		}
	}
	t.Cleanup(func() {
		h.flushBest()
		for _, w := range h.workers {
			w.Kill()
		}
		h.S.Write(!t.Failed() || len(h.S.Violations) > 0)
	})
	return h
}

func (h *H) Thorough() bool { return h.Tier == "thorough" }

// IsKnown reports whether finding id is listed as an (unrepaired) known finding.
func (h *H) IsKnown(id string) bool {
	if os.Getenv("VERIF_FORGET_KNOWN") == id {
		return false // development aid: hunt for a minimal reproduction of a known finding
	}
	k, ok := h.known[id]
	return ok && k.Status == "known" && (k.Property == h.ID || k.Property == "")
}

func (h *H) Opts() pool.Options {
	bin := env("VERIF_WORKER", filepath.Join(h.Root, "bin", "gritsworker"))
	o := pool.Options{Bin: bin}
	if h.Race {
		o.Bin = env("VERIF_WORKER_RACE", filepath.Join(h.Root, "bin", "gritsworker-race"))
		o.RaceLogs = filepath.Join(h.OutDir, "race")
		os.MkdirAll(o.RaceLogs, 0755)
	}
	return o
}

// Worker returns the i-th persistent worker of this shard (started on demand).
func (h *H) Worker(i int) *pool.Worker {
	h.mu.Lock()
	defer h.mu.Unlock()
	for len(h.workers) <= i {
		w, err := pool.Start(h.Opts())
		if err != nil {
			h.S.InfraProblem("cannot start worker: " + err.Error())
			panic("cannot start worker: " + err.Error())
		}
		h.workers = append(h.workers, w)
	}
	return h.workers[i]
}

// Call runs req on worker i, recycling the worker every `recycle` calls.
func (h *H) Call(i int, req *wire.Req, timeout time.Duration) pool.Result {
	w := h.Worker(i)
	if w.Calls() > 300 {
		w.Restart()
	}
	return w.Call(req, timeout)
}

// Alone re-runs req in a brand-new worker with nothing else going on in it.
func (h *H) Alone(req *wire.Req, timeout time.Duration) pool.Result {
	return pool.Fresh(h.Opts(), req, timeout)
}

// Record notes a failing case (kept: the smallest one; written as a replay file at the end).
func (h *H) Record(f *Failure, caseObj interface{}, size int) {
	raw, _ := json.Marshal(caseObj)
	v := &report.Violation{Msg: f.Msg, Case: raw, Size: size}
	h.mu.Lock()
	defer h.mu.Unlock()
	if h.best == nil || size <= h.best.Size {
		h.best = v
	}
}

func (h *H) flushBest() {
	h.mu.Lock()
	defer h.mu.Unlock()
	if h.best == nil {
		return
	}
	dir := filepath.Join(h.Root, "out", "replays", h.ID)
	os.MkdirAll(dir, 0755)
	name := fmt.Sprintf("%016x.json", report.Hash(string(h.best.Case)))
	p := filepath.Join(dir, name)
	b, _ := json.MarshalIndent(map[string]interface{}{"property": h.ID, "msg": h.best.Msg, "case": h.best.Case}, "", " ")
	os.WriteFile(p, b, 0644)
	h.best.Replay = p
	if len(h.best.Case) > 20000 {
		h.best.Case = nil
	}
	h.S.Violate(*h.best)
	h.best = nil
}

// Prop is one property: a generator and an oracle over a JSON-serialisable case.
type Prop struct {
	ID    string
	New   func() interface{}                         // empty case (for replay decoding)
	Gen   func(t *rapid.T, h *H) interface{}         // draws a case; all randomness from rapid
	Check func(h *H, c interface{}) *Failure         // the oracle; talks to workers
	Size  func(c interface{}) int                    // size of a case (for "smallest failing")
	Setup func(h *H)                                 // optional
}

// Run drives p with rapid (or replays one file when VERIF_REPLAY is set).
func Run(t *testing.T, p Prop) {
	h := Open(t, p.ID)
	if p.Setup != nil {
		p.Setup(h)
	}
	if rp := os.Getenv("VERIF_REPLAY"); rp != "" {
		h.Replay = true
		files := strings.Split(rp, ",")
		for _, f := range files {
			replayFile(t, h, p, f)
		}
		return
	}
	rapid.Check(t, func(rt *rapid.T) {
		c := p.Gen(rt, h)
		if c == nil {
			rt.Skip("generator dead end")
		}
		t0 := time.Now()
		f := p.Check(h, c)
		if os.Getenv("VERIF_DEBUG") != "" && (time.Since(t0) > time.Second || f != nil) {
			b, _ := json.Marshal(c)
			if len(b) > 1500 {
				b = b[:1500]
			}
			msg := ""
			if f != nil {
				msg = f.Msg
			}
			fmt.Fprintf(os.Stderr, "DEBUG %v %s\n  %s\n", time.Since(t0), msg, b)
		}
		if f == nil {
			return
		}
		if f.Inconclusive {
			h.S.Inconcl()
			return
		}
		if f.Known != "" && h.IsKnown(f.Known) {
			h.S.KnownFinding(f.Known, f.Msg)
			return
		}
		size := 0
		if p.Size != nil {
			size = p.Size(c)
		}
		h.Record(f, c, size)
		rt.Fatalf("%s", f.Msg)
	})
}

func replayFile(t *testing.T, h *H, p Prop, path string) {
	b, err := os.ReadFile(path)
	if err != nil {
		h.S.InfraProblem("replay: " + err.Error())
		t.Fatalf("replay: %v", err)
	}
	var file struct {
		Property string          `json:"property"`
		Case     json.RawMessage `json:"case"`
		Expect   string          `json:"expect"` // "" or "pass": must hold on a correct tree
	}
	if err := json.Unmarshal(b, &file); err != nil {
		h.S.InfraProblem("replay: " + err.Error())
		t.Fatalf("replay %s: %v", path, err)
	}
	c := p.New()
	if err := json.Unmarshal(file.Case, c); err != nil {
		h.S.InfraProblem("replay: " + err.Error())
		t.Fatalf("replay %s: %v", path, err)
	}
	h.S.Eval("")
	h.S.Count("replayed")
	f := p.Check(h, c)
	if f == nil || f.Inconclusive {
		return
	}
	if f.Known != "" && h.IsKnown(f.Known) {
		h.S.KnownFinding(f.Known, f.Msg)
		return
	}
	h.S.Violate(report.Violation{Msg: f.Msg, Replay: path, Size: 0})
	t.Errorf("replay %s: %s", path, f.Msg)
}

// Brief extracts the informative part of a worker's stderr: panic / fatal lines and the first
// Grits frames.
func Brief(stderr string) string {
	var out []string
	lines := strings.Split(stderr, "\n")
	frames := 0
	for i, l := range lines {
		switch {
		case strings.HasPrefix(l, "panic:"), strings.HasPrefix(l, "fatal error:"), strings.Contains(l, "Error in"), strings.HasPrefix(l, "runtime: goroutine stack exceeds"),
			strings.HasPrefix(l, "WARNING: DATA RACE"), strings.HasPrefix(l, "\tpanic:"), strings.Contains(l, "[recovered]"):
			out = append(out, strings.TrimSpace(l))
		case strings.HasPrefix(l, "grits/") && frames < 10:
			frames++
			s := strings.TrimSpace(l)
			if j := strings.Index(s, "("); j > 0 && !strings.HasPrefix(s, "grits/process.(*") && !strings.HasPrefix(s, "grits/parser.(*") && !strings.HasPrefix(s, "grits/types.(*") {
				s = s[:j]
			}
			if i+1 < len(lines) {
				loc := strings.TrimSpace(lines[i+1])
				if k := strings.Index(loc, " +0x"); k > 0 {
					loc = loc[:k]
				}
				s += " @ " + loc
			}
			out = append(out, s)
		}
	}
	if len(out) == 0 {
		s := strings.TrimSpace(stderr)
		if len(s) > 600 {
			s = s[len(s)-600:]
		}
		return s
	}
	s := strings.Join(out, "\n")
	if len(s) > 2500 {
		s = s[:2500] + "…"
	}
	return s
}
