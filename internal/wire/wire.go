// Package wire defines the JSON protocol between the rapid test binaries (which never link
// Grits) and the gritsworker subprocesses (the only binaries that do).
package wire

// Req is one request; Op selects the fields that matter.
type Req struct {
	Op   string `json:"op"`
	Text string `json:"text,omitempty"`

	// run
	Mode       int    `json:"mode,omitempty"`       // 0 async polarized, 1 sync polarized, 2 sync non-polarized
	Monitor    bool   `json:"monitor,omitempty"`    // attach a monitor
	Procs      int    `json:"procs,omitempty"`      // GOMAXPROCS (0 = leave)
	YieldSeed  uint64 `json:"yield_seed,omitempty"` // schedule perturbation seed (0 = none)
	StallMs    int    `json:"stall_ms,omitempty"`   // with YieldSeed: the StallAt-th hook point visited sleeps this long (a process descheduled for longer than the interpreter's inactivity timer)
	StallAt    uint64 `json:"stall_at,omitempty"`
	Entry      string `json:"entry,omitempty"`      // "" piecewise API (benchmarks.runTiming style), "init" = InitializeProcesses
	NoCheck    bool   `json:"nocheck,omitempty"`    // skip typechecking (Typechecked=false)
	TimeoutMs  int    `json:"timeout_ms,omitempty"` // quiescence deadline
	PostAPI    bool   `json:"post_api,omitempty"`   // call ProcessCount/DeadProcessCount/TimeTaken after the run
	WantDump   bool   `json:"want_dump,omitempty"`  // parse/check: include declaration dump
	DumpTy     bool   `json:"dump_ty,omitempty"`    // parse: include the types attached to names
	SettleMs   int    `json:"settle_ms,omitempty"`  // check: how long to watch leftover typechecker goroutines
	WantStacks bool   `json:"want_stacks,omitempty"`

	// eqtype / unfold
	Pairs  [][2]string `json:"pairs,omitempty"`  // names of definitions (or type expressions registered as definitions)
	Unfold bool        `json:"unfold,omitempty"` // compare the unfolded forms as well
	Names  []string    `json:"names,omitempty"`

	// modetable
	Spellings []string `json:"spellings,omitempty"`
}

// Ty is a structural dump of a types.SessionType.
type Ty struct {
	K    string `json:"k"`              // one send recv plus with up down name nil
	M    string `json:"m,omitempty"`    // mode (String()) of this node; for shifts the To mode
	From string `json:"from,omitempty"` // shifts
	To   string `json:"to,omitempty"`
	L    *Ty    `json:"l,omitempty"`
	R    *Ty    `json:"r,omitempty"`
	C    *Ty    `json:"c,omitempty"` // shift continuation
	Brs  []Br   `json:"brs,omitempty"`
	Name string `json:"name,omitempty"`
}

type Br struct {
	L string `json:"l"`
	T *Ty    `json:"t"`
}

// Form is a reflective dump of a process.Form.
type Form struct {
	F      string            `json:"f"` // SendForm, ReceiveForm, ...
	Names  map[string]NameD  `json:"names,omitempty"`
	Label  string            `json:"label,omitempty"`
	Fn     string            `json:"fn,omitempty"`
	Params []NameD           `json:"params,omitempty"`
	Subs   map[string]*Form  `json:"subs,omitempty"`
	Brs    []*Form           `json:"brs,omitempty"`
	Extra  map[string]string `json:"extra,omitempty"`
}

type NameD struct {
	Ident  string `json:"ident,omitempty"`
	IsSelf bool   `json:"self,omitempty"`
	Pol    string `json:"pol,omitempty"` // "+", "-", ""
	Ty     *Ty    `json:"ty,omitempty"`
}

type ProcD struct {
	Providers []string `json:"providers"`
	Type      *Ty      `json:"type,omitempty"`
	TypeStr   string   `json:"type_str,omitempty"`
	Body      *Form    `json:"body,omitempty"`
	BodyStr   string   `json:"body_str,omitempty"`
}

type FuncD struct {
	Name     string  `json:"name"`
	Params   []NameD `json:"params"`
	Type     *Ty     `json:"type,omitempty"`
	TypeStr  string  `json:"type_str,omitempty"`
	Explicit string  `json:"explicit,omitempty"`
	Body     *Form   `json:"body,omitempty"`
	BodyStr  string  `json:"body_str,omitempty"`
}

type TypeD struct {
	Name    string `json:"name"`
	Mode    string `json:"mode"`
	Type    *Ty    `json:"type"`
	Str     string `json:"str"`
	StrMode string `json:"str_mode"`
}

type Dump struct {
	Procs   []ProcD `json:"procs"`
	Funcs   []FuncD `json:"funcs"`
	Types   []TypeD `json:"types"`
	Assumed []NameD `json:"assumed"`
}

type Site struct {
	State string `json:"state"`
	Site  string `json:"site"`
	Kind  string `json:"kind"` // send recv fwd-send fwd-recv np-select other
}

type RuleD struct {
	Rule      string   `json:"rule"`
	Providers []string `json:"providers"`
	Body      string   `json:"body,omitempty"`
}

// Resp is the answer to one request.
type Resp struct {
	Op string `json:"op"`

	ParseOK         bool   `json:"parse_ok"`
	ParseErr        string `json:"parse_err,omitempty"`
	ParseUs         int64  `json:"parse_us,omitempty"`
	ParseCPUUs      int64  `json:"parse_cpu_us,omitempty"` // CPU time of the parsing thread
	ParseAllocBytes int64  `json:"parse_alloc_bytes,omitempty"`
	ParseMallocs    int64  `json:"parse_mallocs,omitempty"`
	CheckRan        bool   `json:"check_ran,omitempty"`
	CheckOK         bool   `json:"check_ok,omitempty"`
	CheckErr        string `json:"check_err,omitempty"`
	CheckUs         int64  `json:"check_us,omitempty"`
	Settled         bool   `json:"settled,omitempty"`  // no typechecker goroutine running/runnable any more
	Leftover        int    `json:"leftover,omitempty"` // typechecker goroutines parked forever
	Dump            *Dump  `json:"dump,omitempty"`     // declarations after parse (and after check if it ran)
	InternalE       string `json:"internal,omitempty"` // harness-side problem inside the worker (not a Grits fault)

	// run
	Ran             bool     `json:"ran,omitempty"`
	Prints          []string `json:"prints,omitempty"`
	Stdout          string   `json:"stdout,omitempty"` // non-print stdout text (truncated)
	Rules           []RuleD  `json:"rules,omitempty"`
	Quiescent       bool     `json:"quiescent,omitempty"`
	Timeout         bool     `json:"timeout,omitempty"`
	BusyAfterCancel int      `json:"busy_after_cancel,omitempty"` // process goroutines still running (not parked) 10 s after a timed-out run was cancelled
	Polls           int      `json:"polls,omitempty"`
	Final           []Site   `json:"final,omitempty"`
	NRecv           int      `json:"n_recv,omitempty"`
	NSend           int      `json:"n_send,omitempty"`
	NOther          int      `json:"n_other,omitempty"`
	Goroutines      int      `json:"goroutines,omitempty"` // max run goroutines seen
	ProcCount       uint64   `json:"proc_count,omitempty"`
	DeadCount       uint64   `json:"dead_count,omitempty"`
	RunUs           int64    `json:"run_us,omitempty"`
	Stacks          string   `json:"stacks,omitempty"`
	YieldPts        uint64   `json:"yield_pts,omitempty"`

	// eqtype / unfold / modes
	Bools  []bool   `json:"bools,omitempty"`
	Bools2 []bool   `json:"bools2,omitempty"`
	Bools3 []bool   `json:"bools3,omitempty"`
	Strs   []string `json:"strs,omitempty"`
	Tys    []*Ty    `json:"tys,omitempty"`

	// modetable
	Table map[string]interface{} `json:"table,omitempty"`
}
