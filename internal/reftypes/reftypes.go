// Package reftypes is the reference for session types: well-formedness, mode inference and
// equi-recursive equality. Written from the property statements (C08, C10, C16) and the
// README grammar; shares no code or representation with Grits.
package reftypes

import (
	"fmt"

	"verif/internal/ast"
)

// Reasons for ill-formedness.
const (
	DupDef        = "duplicate-definition"
	Undefined     = "undefined-name"
	DupLabel      = "duplicate-label"
	UnknownMode   = "unknown-mode"
	NonContract   = "non-contractive"
	ModeMismatch  = "mode-mismatch"
	IllegalShift  = "illegal-shift"
	HeadVsShift   = "head-annotation-on-shift" // annotation placed directly on a shift and different from its target mode (F15 shape)
)

type Ill struct {
	Reason string
	Detail string
	Where  string // definition (or annotation) in which it was found
	Depth  int    // nesting depth of the offending node (0 = root)
}

func (e *Ill) Error() string { return fmt.Sprintf("%s in %s: %s", e.Reason, e.Where, e.Detail) }

type Def struct {
	Name string
	Ty   *ast.Ty // resolved clone (every node carries a mode)
	Mode ast.Mode
}

type Env struct {
	Defs  map[string]*Def
	Order []string
}

// ModeWord resolves a mode word.
func modeWord(w string) (ast.Mode, bool) { return ast.ModeOfWord(w) }

// ---- syntactic checks on one written type ----

func checkSyntax(t *ast.Ty, defined map[string]bool, where string, depth int) *Ill {
	if t == nil {
		return nil
	}
	if t.Ann != "" {
		if _, ok := modeWord(t.Ann); !ok {
			r := UnknownMode
			if t.IsShift() {
				r = HeadVsShift
			}
			return &Ill{r, "mode word " + t.Ann, where, depth}
		}
	}
	switch t.K {
	case ast.KName:
		if !defined[t.Name] {
			return &Ill{Undefined, "type " + t.Name, where, depth}
		}
	case ast.KPlus, ast.KWith:
		seen := map[string]bool{}
		for _, b := range t.Brs {
			if seen[b.L] {
				return &Ill{DupLabel, "label " + b.L, where, depth}
			}
			seen[b.L] = true
		}
	case ast.KUp, ast.KDown:
		if _, ok := modeWord(t.FromW); !ok {
			return &Ill{UnknownMode, "mode word " + t.FromW, where, depth}
		}
		if _, ok := modeWord(t.ToW); !ok {
			return &Ill{UnknownMode, "mode word " + t.ToW, where, depth}
		}
	}
	if e := checkSyntax(t.L, defined, where, depth+1); e != nil {
		return e
	}
	if e := checkSyntax(t.R, defined, where, depth+1); e != nil {
		return e
	}
	for _, b := range t.Brs {
		if e := checkSyntax(b.T, defined, where, depth+1); e != nil {
			return e
		}
	}
	return nil
}

// contributions collects the modes fixed by components of the top shift-free region of t.
// known: modes of definitions resolved so far. Returns the list of contributed modes.
func contributions(t *ast.Ty, known map[string]ast.Mode, out *[]ast.Mode) {
	switch t.K {
	case ast.KUp, ast.KDown:
		m, _ := modeWord(t.ToW)
		*out = append(*out, m)
	case ast.KName:
		if m, ok := known[t.Name]; ok {
			*out = append(*out, m)
		}
	case ast.KTensor, ast.KLolli:
		contributions(t.L, known, out)
		contributions(t.R, known, out)
	case ast.KPlus, ast.KWith:
		for _, b := range t.Brs {
			contributions(b.T, known, out)
		}
	}
}

// headMode determines the mode of a written type given the modes of the definitions known so far:
// annotation, else shift target, else what its components fix. ok=false when nothing fixes it (yet).
func headMode(t *ast.Ty, known map[string]ast.Mode) (m ast.Mode, ok bool, conflict bool) {
	if t.Ann != "" && !t.IsShift() {
		m, _ = modeWord(t.Ann)
		return m, true, false
	}
	var cs []ast.Mode
	contributions(t, known, &cs)
	if len(cs) == 0 {
		return ast.Unset, false, false
	}
	for _, c := range cs[1:] {
		if c != cs[0] {
			conflict = true
		}
	}
	return cs[0], true, conflict
}

// assign fills the resolved mode of every node: m governs up to the next shift.
func assign(t *ast.Ty, m ast.Mode, defMode map[string]ast.Mode, where string, depth int) *Ill {
	switch t.K {
	case ast.KName:
		t.M = m
		if dm := defMode[t.Name]; dm != m {
			return &Ill{ModeMismatch, fmt.Sprintf("type %s has mode %s but is used where mode %s is expected", t.Name, dm, m), where, depth}
		}
	case ast.KOne:
		t.M = m
	case ast.KTensor, ast.KLolli:
		t.M = m
		if e := assign(t.L, m, defMode, where, depth+1); e != nil {
			return e
		}
		return assign(t.R, m, defMode, where, depth+1)
	case ast.KPlus, ast.KWith:
		t.M = m
		for _, b := range t.Brs {
			if e := assign(b.T, m, defMode, where, depth+1); e != nil {
				return e
			}
		}
	case ast.KUp, ast.KDown:
		from, _ := modeWord(t.FromW)
		to, _ := modeWord(t.ToW)
		t.M = to
		if to != m {
			return &Ill{ModeMismatch, fmt.Sprintf("shift to mode %s where mode %s is expected", to, m), where, depth}
		}
		if t.K == ast.KUp && !ast.Geq(to, from) {
			return &Ill{IllegalShift, fmt.Sprintf("%s cannot be up-shifted to %s", from, to), where, depth}
		}
		if t.K == ast.KDown && !ast.Geq(from, to) {
			return &Ill{IllegalShift, fmt.Sprintf("%s cannot be down-shifted to %s", from, to), where, depth}
		}
		return assign(t.L, from, defMode, where, depth+1)
	}
	return nil
}

// Resolve checks a set of type definitions (as written) and infers all modes.
// Returns the environment, or the first ill-formedness found.
func Resolve(decls []*ast.Decl) (*Env, *Ill) {
	env := &Env{Defs: map[string]*Def{}}
	defined := map[string]bool{}
	for _, d := range decls {
		if defined[d.Name] {
			return nil, &Ill{DupDef, "type " + d.Name, d.Name, 0}
		}
		defined[d.Name] = true
	}
	for _, d := range decls {
		env.Order = append(env.Order, d.Name)
		env.Defs[d.Name] = &Def{Name: d.Name, Ty: d.Ty.Clone(), Mode: ast.Unset}
	}
	for _, n := range env.Order {
		if e := checkSyntax(env.Defs[n].Ty, defined, n, 0); e != nil {
			return nil, e
		}
	}
	// contractivity: no cycle through definitions whose body is just a name
	for _, n := range env.Order {
		seen := map[string]bool{}
		cur := n
		for {
			b := env.Defs[cur].Ty
			if b.K != ast.KName {
				break
			}
			if seen[cur] {
				return nil, &Ill{NonContract, "cycle of aliases through " + cur, n, 0}
			}
			seen[cur] = true
			cur = b.Name
		}
	}
	// head modes: fixpoint over what annotations, shifts and named components fix
	known := map[string]ast.Mode{}
	for changed := true; changed; {
		changed = false
		for _, n := range env.Order {
			if _, ok := known[n]; ok {
				continue
			}
			if m, ok, _ := headMode(env.Defs[n].Ty, known); ok {
				known[n] = m
				changed = true
			}
		}
	}
	for _, n := range env.Order {
		if _, ok := known[n]; !ok {
			known[n] = ast.Rep // nothing fixes it: replicable
		}
		env.Defs[n].Mode = known[n]
	}
	for _, n := range env.Order {
		d := env.Defs[n]
		if d.Ty.Ann != "" && d.Ty.IsShift() {
			am, _ := modeWord(d.Ty.Ann)
			to, _ := modeWord(d.Ty.ToW)
			if am != to {
				return nil, &Ill{HeadVsShift, fmt.Sprintf("annotation %s on a shift to %s", d.Ty.Ann, d.Ty.ToW), n, 0}
			}
		}
		if e := assign(d.Ty, d.Mode, known, n, 0); e != nil {
			return nil, e
		}
	}
	return env, nil
}

// ResolveAnn resolves a type written as an annotation (signature, cut, prc, assuming) over env.
func (env *Env) ResolveAnn(t *ast.Ty, where string) (*ast.Ty, *Ill) {
	defined := map[string]bool{}
	known := map[string]ast.Mode{}
	for n, d := range env.Defs {
		defined[n] = true
		known[n] = d.Mode
	}
	c := t.Clone()
	if e := checkSyntax(c, defined, where, 0); e != nil {
		return nil, e
	}
	m, ok, _ := headMode(c, known)
	if !ok {
		m = ast.Rep
	}
	if c.Ann != "" && c.IsShift() {
		am, _ := modeWord(c.Ann)
		to, _ := modeWord(c.ToW)
		if am != to {
			return nil, &Ill{HeadVsShift, fmt.Sprintf("annotation %s on a shift to %s", c.Ann, c.ToW), where, 0}
		}
	}
	if e := assign(c, m, known, where, 0); e != nil {
		return nil, e
	}
	return c, nil
}

// Unfold follows names until a structural type is reached (terminates on contractive envs).
func (env *Env) Unfold(t *ast.Ty) *ast.Ty {
	for i := 0; t != nil && t.K == ast.KName; i++ {
		if i > len(env.Defs)+1 {
			return nil
		}
		d := env.Defs[t.Name]
		if d == nil {
			return nil
		}
		t = d.Ty
	}
	return t
}

// Equal decides equi-recursive equality (bisimilarity of the infinite unfoldings):
// greatest fixpoint over pairs of nodes keyed by node identity.
func (env *Env) Equal(a, b *ast.Ty) bool {
	return env.eq(a, b, map[[2]*ast.Ty]bool{})
}

func (env *Env) eq(a, b *ast.Ty, seen map[[2]*ast.Ty]bool) bool {
	a, b = env.Unfold(a), env.Unfold(b)
	if a == nil || b == nil {
		return false
	}
	key := [2]*ast.Ty{a, b}
	if seen[key] {
		return true
	}
	seen[key] = true
	if a.K != b.K || a.M != b.M {
		return false
	}
	switch a.K {
	case ast.KOne:
		return true
	case ast.KTensor, ast.KLolli:
		return env.eq(a.L, b.L, seen) && env.eq(a.R, b.R, seen)
	case ast.KUp, ast.KDown:
		return a.L.M == b.L.M && env.eq(a.L, b.L, seen)
	case ast.KPlus, ast.KWith:
		if len(a.Brs) != len(b.Brs) {
			return false
		}
		for _, x := range a.Brs {
			found := false
			for _, y := range b.Brs {
				if x.L == y.L {
					found = true
					if !env.eq(x.T, y.T, seen) {
						return false
					}
				}
			}
			if !found {
				return false
			}
		}
		return true
	}
	return false
}

// Cyclic reports whether the unfolding of t reaches a cycle (i.e. t is properly recursive).
func (env *Env) Cyclic(t *ast.Ty) bool {
	onPath := map[string]bool{}
	acyclic := map[string]bool{} // names whose unfolding is known to reach no cycle (definitions form a dag: visit each once)
	var walk func(t *ast.Ty) bool
	walk = func(t *ast.Ty) bool {
		if t == nil {
			return false
		}
		if t.K == ast.KName {
			if onPath[t.Name] {
				return true
			}
			if acyclic[t.Name] {
				return false
			}
			d := env.Defs[t.Name]
			if d == nil {
				return false
			}
			onPath[t.Name] = true
			r := walk(d.Ty)
			onPath[t.Name] = false
			if !r {
				acyclic[t.Name] = true
			}
			return r
		}
		if walk(t.L) || walk(t.R) {
			return true
		}
		for _, b := range t.Brs {
			if walk(b.T) {
				return true
			}
		}
		return false
	}
	return walk(t)
}
