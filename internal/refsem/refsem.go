// Package refsem is the reference operational semantics: the semi-axiomatic sequent calculus as
// multiset rewriting over processes and message cells, with lexical environments instead of
// substitution (DESIGN.md, Appendix C). It shares nothing with Grits' interpreter.
//
// Structural requests (drop, copy) attach to a channel and take effect when the provider of
// that channel next communicates on it: a positive provider's message is discarded / copied, a
// negative provider is removed / duplicated at its next receive on self. This is the
// program-determined timing of Grits' polarized modes; top-level multi-name providers are
// copied before their first step.
package refsem

import (
	"fmt"
	"sort"

	"verif/internal/ast"
	"verif/internal/refcheck"
)

const selfMark = -1

type Event struct {
	ID    int
	Label string
	Proc  int
	Preds []int // events that happen immediately before
}

type msg struct {
	kind     ast.TermKind // TClose, TSend, TSel, TCast (positive) ; TSend/TSel/TCast as negative requests
	label    string
	payload  int // -1 none
	cont     int // positive: continuation channel (TSend second component / TSel / TCast payload is in payload)
	frontier []int
}

type request struct {
	drop   bool
	copies []int
}

type proc struct {
	id       int
	prov     []int // provider channels (more than one: copy pending before the first step)
	term     *ast.Term
	env      map[string]int
	frontier []int
	steps    int
}

type Result struct {
	Events       []Event
	Labels       []string // multiset of printed labels (sorted)
	Stuck        int      // processes left blocked in a receive
	StuckDesc    []string
	Unreceived   int // positive messages nobody receives (sync-mode survivors)
	Steps        int
	Comm         int // communication steps
	Spawns       int
	Copies       int
	Drops        int
	Forwards     int
	Hops         int // max number of hops a channel travelled inside messages
	Blocked      int // times a process had to wait
	OutOfBudget  bool
	Error        string
	Contraction  bool
	CrossEdges   int // happens-before edges between different processes that order two prints
}

type machine struct {
	prog    *ast.Program
	funs    map[string]*ast.Decl
	procs   []*proc
	parent  map[int]int
	pmsg    map[int]*msg // positive message waiting on a channel
	nmsg    map[int]*msg // negative message waiting for the provider of a channel
	req     map[int]*request
	hops    map[int]int
	nchan   int
	nproc   int
	res     *Result
	budget  int
	global  map[string]int
	// frontier of forwarders whose channel identification is waiting for traffic
	fwdFrontier map[int][]int
}

func (m *machine) find(c int) int {
	for {
		p, ok := m.parent[c]
		if !ok {
			return c
		}
		c = p
	}
}

func (m *machine) fresh() int {
	m.nchan++
	return m.nchan
}

func merge(a, b []int) []int {
	seen := map[int]bool{}
	var out []int
	for _, x := range append(append([]int{}, a...), b...) {
		if !seen[x] {
			seen[x] = true
			out = append(out, x)
		}
	}
	sort.Ints(out)
	return out
}

func (m *machine) errorf(format string, a ...interface{}) {
	if m.res.Error == "" {
		m.res.Error = fmt.Sprintf(format, a...)
	}
}

// resolve a name occurrence to a channel.
func (m *machine) ch(p *proc, n ast.Nm) int {
	if n.Self {
		return m.find(p.prov[0])
	}
	c, ok := p.env[n.S]
	if !ok {
		if g, ok2 := m.global[n.S]; ok2 {
			return m.find(g)
		}
		m.errorf("unbound name %s", n.S)
		return 0
	}
	if c == selfMark {
		return m.find(p.prov[0])
	}
	return m.find(c)
}

func (m *machine) isSelf(p *proc, n ast.Nm) bool {
	if n.Self {
		return true
	}
	c, ok := p.env[n.S]
	return ok && c == selfMark
}

// free channels of the process' term (excluding its own provider).
func (m *machine) freeChans(p *proc) []int {
	var out []int
	seen := map[int]bool{}
	for _, n := range refcheck.FreeNames(p.term) {
		c, ok := p.env[n]
		if !ok {
			if g, ok2 := m.global[n]; ok2 {
				c = g
			} else {
				continue
			}
		}
		if c == selfMark {
			continue
		}
		c = m.find(c)
		if !seen[c] {
			seen[c] = true
			out = append(out, c)
		}
	}
	return out
}

func (m *machine) request(c int, r *request) {
	c = m.find(c)
	if r.drop {
		m.res.Drops++
	} else {
		m.res.Copies++
		m.res.Contraction = true
	}
	if pm, ok := m.pmsg[c]; ok {
		delete(m.pmsg, c)
		m.req[c] = r
		m.deliver(c, pm)
		return
	}
	m.req[c] = r
}

// deliver a positive message on channel c, applying a pending structural request.
func (m *machine) deliver(c int, ms *msg) {
	c = m.find(c)
	if f, ok := m.fwdFrontier[c]; ok {
		ms.frontier = merge(ms.frontier, f)
	}
	r := m.req[c]
	if r == nil {
		m.pmsg[c] = ms
		return
	}
	delete(m.req, c)
	chans := []int{}
	if ms.payload >= 0 {
		chans = append(chans, ms.payload)
	}
	if ms.cont >= 0 {
		chans = append(chans, ms.cont)
	}
	if r.drop {
		for _, b := range chans {
			m.request(b, &request{drop: true})
		}
		return
	}
	n := len(r.copies)
	split := map[int][]int{}
	for _, b := range chans {
		var fs []int
		for i := 0; i < n; i++ {
			fs = append(fs, m.fresh())
		}
		split[b] = fs
		m.request(b, &request{copies: fs})
	}
	for i, ci := range r.copies {
		cp := *ms
		if ms.payload >= 0 {
			cp.payload = split[ms.payload][i]
		}
		if ms.cont >= 0 {
			cp.cont = split[ms.cont][i]
		}
		m.deliver(ci, &cp)
	}
}

func (m *machine) spawn(prov []int, t *ast.Term, env map[string]int, frontier []int) *proc {
	m.nproc++
	p := &proc{id: m.nproc, prov: prov, term: t, env: env, frontier: append([]int{}, frontier...)}
	m.procs = append(m.procs, p)
	m.res.Spawns++
	return p
}

func copyEnv(e map[string]int) map[string]int {
	n := make(map[string]int, len(e)+2)
	for k, v := range e {
		n[k] = v
	}
	return n
}

// duplicate a process for each of the provider channels cs; its free channels are split.
func (m *machine) duplicate(p *proc, cs []int) []*proc {
	free := m.freeChans(p)
	split := map[int][]int{}
	for _, b := range free {
		var fs []int
		for range cs {
			fs = append(fs, m.fresh())
		}
		split[b] = fs
	}
	var out []*proc
	for i, ci := range cs {
		env := copyEnv(p.env)
		// bind every name that denotes a split channel to its i-th copy
		for _, n := range refcheck.FreeNames(p.term) {
			c, ok := p.env[n]
			if !ok {
				if g, ok2 := m.global[n]; ok2 {
					c = g
				} else {
					continue
				}
			}
			if c == selfMark {
				continue
			}
			if fs, ok := split[m.find(c)]; ok {
				env[n] = fs[i]
			}
		}
		out = append(out, m.spawn([]int{ci}, p.term, env, p.frontier))
	}
	for _, b := range free {
		m.request(b, &request{copies: split[b]})
	}
	return out
}

func (m *machine) remove(p *proc) {
	for i, q := range m.procs {
		if q == p {
			m.procs = append(m.procs[:i], m.procs[i+1:]...)
			return
		}
	}
}

// atSelf handles a pending structural request when p is about to communicate on its provider
// channel as a *receiver* (negative provider). Returns true if p was removed or duplicated.
func (m *machine) atSelf(p *proc) bool {
	c := m.find(p.prov[0])
	r := m.req[c]
	if r == nil {
		return false
	}
	delete(m.req, c)
	if r.drop {
		for _, b := range m.freeChans(p) {
			m.request(b, &request{drop: true})
		}
		m.remove(p)
		return true
	}
	m.remove(p)
	m.duplicate(p, r.copies)
	return true
}

// step runs p for one step. Returns progress=false if p is blocked.
func (m *machine) step(p *proc) (progress bool) {
	if len(p.prov) > 1 {
		// top-level multi-name provider: copied before its first step
		m.res.Contraction = true
		m.remove(p)
		m.duplicate(p, p.prov)
		return true
	}
	t := p.term
	cont := func(k *ast.Term) { p.term = k }
	recvPos := func(n ast.Nm, kind ast.TermKind) *msg {
		c := m.ch(p, n)
		ms, ok := m.pmsg[c]
		if !ok {
			return nil
		}
		if ms.kind != kind {
			m.errorf("process %d expected a %s message on channel %d, found %s", p.id, ast.TermKindName[kind], c, ast.TermKindName[ms.kind])
			return nil
		}
		delete(m.pmsg, c)
		p.frontier = merge(p.frontier, ms.frontier)
		m.res.Comm++
		return ms
	}
	recvNeg := func(kind ast.TermKind) (*msg, bool) {
		if m.atSelf(p) {
			return nil, true
		}
		c := m.find(p.prov[0])
		ms, ok := m.nmsg[c]
		if !ok {
			return nil, false
		}
		if ms.kind != kind {
			m.errorf("process %d expected a %s request on its channel %d, found %s", p.id, ast.TermKindName[kind], c, ast.TermKindName[ms.kind])
			return nil, false
		}
		delete(m.nmsg, c)
		p.frontier = merge(p.frontier, ms.frontier)
		if f, ok := m.fwdFrontier[c]; ok {
			p.frontier = merge(p.frontier, f)
		}
		m.res.Comm++
		return ms, true
	}
	sendPos := func(ms *msg) {
		ms.frontier = p.frontier
		for _, b := range []int{ms.payload, ms.cont} {
			if b >= 0 {
				m.hops[b]++
				if m.hops[b] > m.res.Hops {
					m.res.Hops = m.hops[b]
				}
			}
		}
		m.remove(p)
		m.deliver(p.prov[0], ms)
	}
	sendNeg := func(to ast.Nm, ms *msg) {
		ms.frontier = p.frontier
		ms.cont = m.find(p.prov[0])
		if ms.payload >= 0 {
			m.hops[ms.payload]++
			if m.hops[ms.payload] > m.res.Hops {
				m.res.Hops = m.hops[ms.payload]
			}
		}
		c := m.ch(p, to)
		if _, dup := m.nmsg[c]; dup {
			m.errorf("two requests on channel %d", c)
		}
		m.nmsg[c] = ms
		m.remove(p)
	}
	switch t.Kind {
	case ast.TPrint:
		e := Event{ID: len(m.res.Events), Label: t.Label, Proc: p.id, Preds: append([]int{}, p.frontier...)}
		m.res.Events = append(m.res.Events, e)
		p.frontier = []int{e.ID}
		cont(t.K)
	case ast.TNew:
		a := m.fresh()
		child := copyEnv(p.env)
		// inside the body `self` is the new channel; names bound to the parent's self stay the parent's channel
		for k, v := range child {
			if v == selfMark {
				child[k] = m.find(p.prov[0])
			}
		}
		m.spawn([]int{a}, t.Body, child, p.frontier)
		p.env = copyEnv(p.env)
		p.env[t.X.S] = a
		cont(t.K)
	case ast.TCall:
		f := m.funs[t.Fn]
		if f == nil {
			m.errorf("call of undefined function %s", t.Fn)
			return false
		}
		args := t.Args
		if len(args) == len(f.Params)+1 {
			args = args[1:]
		}
		if len(args) != len(f.Params) {
			m.errorf("arity mismatch calling %s", t.Fn)
			return false
		}
		env := map[string]int{}
		for i, pa := range f.Params {
			env[pa.Name] = m.ch(p, args[i])
		}
		if f.Explicit != "" {
			env[f.Explicit] = selfMark
		}
		p.env = env
		cont(f.Body)
	case ast.TDrop:
		m.request(m.ch(p, t.X), &request{drop: true})
		cont(t.K)
	case ast.TSplit:
		a1, a2 := m.fresh(), m.fresh()
		m.request(m.ch(p, t.Z), &request{copies: []int{a1, a2}})
		p.env = copyEnv(p.env)
		p.env[t.X.S], p.env[t.Y.S] = a1, a2
		cont(t.K)
	case ast.TFwd:
		// identify the provider channel with the forwarded one
		c, a := m.find(p.prov[0]), m.ch(p, t.Y)
		m.res.Forwards++
		m.remove(p)
		if c != a {
			m.parent[a] = c
			if r, ok := m.req[a]; ok {
				if _, both := m.req[c]; both {
					m.errorf("two structural requests meet at a forward")
				}
				m.req[c] = r
				delete(m.req, a)
			}
			if ms, ok := m.nmsg[a]; ok {
				// cannot happen for well-typed programs (a is used by this forwarder only)
				m.nmsg[c] = ms
				delete(m.nmsg, a)
			}
			if f, ok := m.fwdFrontier[a]; ok {
				m.fwdFrontier[c] = merge(m.fwdFrontier[c], f)
				delete(m.fwdFrontier, a)
			}
			if ms, ok := m.pmsg[a]; ok {
				delete(m.pmsg, a)
				ms.frontier = merge(ms.frontier, p.frontier)
				m.deliver(c, ms)
			} else {
				// the forwarder's past happens before whatever later flows through: record it on the channel
				m.fwdFrontier[c] = merge(m.fwdFrontier[c], p.frontier)
			}
		}
	case ast.TClose:
		sendPos(&msg{kind: ast.TClose, payload: -1, cont: -1})
	case ast.TWait:
		if ms := recvPos(t.X, ast.TClose); ms != nil {
			cont(t.K)
		} else {
			return false
		}
	case ast.TSend:
		if m.isSelf(p, t.X) {
			sendPos(&msg{kind: ast.TSend, payload: m.ch(p, t.Y), cont: m.ch(p, t.Z)})
		} else {
			sendNeg(t.X, &msg{kind: ast.TSend, payload: m.ch(p, t.Y)})
		}
	case ast.TRecv:
		if m.isSelf(p, t.Z) {
			ms, ok := recvNeg(ast.TSend)
			if ms == nil {
				return ok
			}
			p.env = copyEnv(p.env)
			p.env[t.X.S] = ms.payload
			p.env[t.Y.S] = selfMark
			p.prov = []int{ms.cont}
			cont(t.K)
		} else {
			ms := recvPos(t.Z, ast.TSend)
			if ms == nil {
				return false
			}
			p.env = copyEnv(p.env)
			p.env[t.X.S], p.env[t.Y.S] = ms.payload, ms.cont
			cont(t.K)
		}
	case ast.TSel:
		if m.isSelf(p, t.X) {
			sendPos(&msg{kind: ast.TSel, label: t.Label, payload: m.ch(p, t.Y), cont: -1})
		} else {
			sendNeg(t.X, &msg{kind: ast.TSel, label: t.Label, payload: -1})
		}
	case ast.TCase:
		var ms *msg
		right := m.isSelf(p, t.X)
		if right {
			var ok bool
			ms, ok = recvNeg(ast.TSel)
			if ms == nil {
				return ok
			}
		} else {
			ms = recvPos(t.X, ast.TSel)
			if ms == nil {
				return false
			}
		}
		var br *ast.Branch
		for i := range t.Brs {
			if t.Brs[i].Label == ms.label {
				br = &t.Brs[i]
			}
		}
		if br == nil {
			m.errorf("no branch for label %s", ms.label)
			return false
		}
		p.env = copyEnv(p.env)
		if right {
			p.env[br.Payload.S] = selfMark
			p.prov = []int{ms.cont}
		} else {
			p.env[br.Payload.S] = ms.payload
		}
		cont(br.K)
	case ast.TCast:
		if m.isSelf(p, t.X) {
			sendPos(&msg{kind: ast.TCast, payload: m.ch(p, t.Y), cont: -1})
		} else {
			sendNeg(t.X, &msg{kind: ast.TCast, payload: -1})
		}
	case ast.TShift:
		if m.isSelf(p, t.Z) {
			ms, ok := recvNeg(ast.TCast)
			if ms == nil {
				return ok
			}
			p.env = copyEnv(p.env)
			p.env[t.X.S] = selfMark
			p.prov = []int{ms.cont}
			cont(t.K)
		} else {
			ms := recvPos(t.Z, ast.TCast)
			if ms == nil {
				return false
			}
			p.env = copyEnv(p.env)
			p.env[t.X.S] = ms.payload
			cont(t.K)
		}
	default:
		m.errorf("unknown term")
		return false
	}
	return true
}

// Run evaluates a closed, well-typed program to quiescence (eager scheduling; the semantics is
// confluent, see the package comment). budget bounds the number of steps.
func Run(prog *ast.Program, budget int) *Result {
	m := &machine{prog: prog, funs: map[string]*ast.Decl{}, parent: map[int]int{}, pmsg: map[int]*msg{}, nmsg: map[int]*msg{},
		req: map[int]*request{}, hops: map[int]int{}, res: &Result{}, budget: budget, global: map[string]int{}, fwdFrontier: map[int][]int{}}
	for _, d := range prog.Funs() {
		m.funs[d.Name] = d
	}
	execN := 0
	type top struct {
		prov []int
		body *ast.Term
	}
	var tops []top
	for _, d := range prog.Decls {
		if d.Kind == ast.DPrc {
			var cs []int
			for _, n := range d.Providers {
				c := m.fresh()
				m.global[n] = c
				cs = append(cs, c)
			}
			tops = append(tops, top{cs, d.Body})
		}
	}
	for _, d := range prog.Decls {
		if d.Kind == ast.DExec {
			execN++
			c := m.fresh()
			m.global[fmt.Sprintf("exec%d", execN)] = c
			tops = append(tops, top{[]int{c}, &ast.Term{Kind: ast.TCall, Fn: d.Name}})
		}
	}
	for _, t := range tops {
		m.spawn(t.prov, t.body, map[string]int{}, nil)
	}
	m.res.Spawns = 0
	for {
		progress := false
		for _, p := range append([]*proc{}, m.procs...) {
			alive := false
			for _, q := range m.procs {
				if q == p {
					alive = true
				}
			}
			if !alive {
				continue
			}
			blockedOnce := false
			for {
				if m.res.Steps >= budget {
					m.res.OutOfBudget = true
					return m.finish()
				}
				still := false
				for _, q := range m.procs {
					if q == p {
						still = true
					}
				}
				if !still {
					break
				}
				if !m.step(p) {
					if !blockedOnce {
						blockedOnce = true
					}
					break
				}
				m.res.Steps++
				progress = true
				if m.res.Error != "" {
					return m.finish()
				}
			}
			if blockedOnce {
				m.res.Blocked++
			}
		}
		if !progress {
			break
		}
	}
	return m.finish()
}

func (m *machine) finish() *Result {
	r := m.res
	for _, p := range m.procs {
		r.Stuck++
		if len(r.StuckDesc) < 5 {
			r.StuckDesc = append(r.StuckDesc, fmt.Sprintf("process %d blocked at %s", p.id, ast.TermKindName[p.term.Kind]))
		}
	}
	r.Unreceived = len(m.pmsg)
	if len(m.nmsg) > 0 && r.Error == "" {
		r.Stuck += len(m.nmsg)
		r.StuckDesc = append(r.StuckDesc, fmt.Sprintf("%d requests to providers that never receive them", len(m.nmsg)))
	}
	for _, e := range r.Events {
		r.Labels = append(r.Labels, e.Label)
		for _, pe := range e.Preds {
			if r.Events[pe].Proc != e.Proc {
				r.CrossEdges++
			}
		}
	}
	sort.Strings(r.Labels)
	return r
}

// Linearization reports whether the observed print order is a linearisation of the reference
// happens-before order. ok=false with decided=false means the search gave up (too ambiguous).
func (r *Result) Linearization(observed []string) (ok bool, decided bool, why string) {
	n := len(r.Events)
	if len(observed) != n {
		return false, true, fmt.Sprintf("%d labels observed, %d expected", len(observed), n)
	}
	byLabel := map[string][]int{}
	for _, e := range r.Events {
		byLabel[e.Label] = append(byLabel[e.Label], e.ID)
	}
	done := make([]bool, n)
	enabled := func(e int) bool {
		if done[e] {
			return false
		}
		for _, p := range r.Events[e].Preds {
			if !done[p] {
				return false
			}
		}
		return true
	}
	nodes := 0
	var rec func(i int) (bool, bool)
	rec = func(i int) (bool, bool) {
		if i == n {
			return true, true
		}
		nodes++
		if nodes > 20000 {
			return false, false
		}
		var cands []int
		for _, e := range byLabel[observed[i]] {
			if enabled(e) {
				cands = append(cands, e)
			}
		}
		if len(cands) == 0 {
			return false, true
		}
		for _, e := range cands {
			done[e] = true
			ok, dec := rec(i + 1)
			done[e] = false
			if ok {
				return true, true
			}
			if !dec {
				return false, false
			}
		}
		return false, true
	}
	ok, decided = rec(0)
	if !ok && decided {
		// find the first position that cannot be extended (for the message)
		for i := range done {
			done[i] = false
		}
		for i, l := range observed {
			found := false
			for _, e := range byLabel[l] {
				if enabled(e) {
					done[e] = true
					found = true
					break
				}
			}
			if !found {
				return false, true, fmt.Sprintf("label %q at position %d is printed before something that must happen before it", l, i)
			}
		}
		why = "no consistent matching of repeated labels"
	}
	return ok, decided, why
}
