// Package pool manages gritsworker subprocesses: request/response with watchdogs,
// crash capture (stderr of the request in flight) and re-confirmation in a fresh worker.
package pool

import (
	"bufio"
	"encoding/json"
	"fmt"
	"io"
	"os"
	"os/exec"
	"strings"
	"sync"
	"syscall"
	"time"

	"verif/internal/wire"
)

type Outcome int

const (
	OK Outcome = iota
	Crash
	Hang
	Infra
)

func (o Outcome) String() string {
	return [...]string{"ok", "crash", "hang", "infra"}[o]
}

// Result of one call.
type Result struct {
	Outcome Outcome
	Resp    *wire.Resp
	Stderr  string // stderr of the request in flight (crash/hang)
	Exit    string
	Elapsed time.Duration
}

type Worker struct {
	bin     string
	env     []string
	cmd     *exec.Cmd
	in      io.WriteCloser
	out     *bufio.Reader
	errFile *os.File
	calls   int
	dead    bool
	RaceLog string // prefix given in GORACE log_path (race builds)
	memKB   int
	raceOff int64
}

type Options struct {
	Bin      string
	Env      []string // extra env (e.g. GORACE)
	MemKB    int      // ulimit -v in KB (0 = none)
	RaceLogs string   // directory for race logs ("" = none)
}

var seq struct {
	sync.Mutex
	n int
}

func Start(o Options) (*Worker, error) {
	w := &Worker{bin: o.Bin, env: o.Env, memKB: o.MemKB}
	if o.RaceLogs != "" {
		seq.Lock()
		seq.n++
		n := seq.n
		seq.Unlock()
		w.RaceLog = fmt.Sprintf("%s/race-%d-%d", o.RaceLogs, os.Getpid(), n)
	}
	if err := w.start(); err != nil {
		return nil, err
	}
	return w, nil
}

func (w *Worker) start() error {
	var cmd *exec.Cmd
	if w.memKB > 0 {
		cmd = exec.Command("/bin/sh", "-c", fmt.Sprintf("ulimit -v %d; exec %s", w.memKB, w.bin))
	} else {
		cmd = exec.Command(w.bin)
	}
	cmd.Env = append(os.Environ(), w.env...)
	if w.RaceLog != "" {
		cmd.Env = append(cmd.Env, "GORACE=halt_on_error=0 log_path="+w.RaceLog)
	}
	in, err := cmd.StdinPipe()
	if err != nil {
		return err
	}
	out, err := cmd.StdoutPipe()
	if err != nil {
		return err
	}
	ef, err := os.CreateTemp("", "gritsworker-stderr-*")
	if err != nil {
		return err
	}
	os.Remove(ef.Name()) // unlinked: disappears with the process
	cmd.Stderr = ef
	if err := cmd.Start(); err != nil {
		return err
	}
	w.cmd, w.in, w.out, w.errFile = cmd, in, bufio.NewReaderSize(out, 1<<20), ef
	w.calls = 0
	w.dead = false
	w.raceOff = 0
	return nil
}

func (w *Worker) stderrTail() string {
	if w.errFile == nil {
		return ""
	}
	st, err := w.errFile.Stat()
	if err != nil {
		return ""
	}
	size := st.Size()
	const max = 1 << 20
	off := int64(0)
	if size > max {
		off = size - max
	}
	buf := make([]byte, size-off)
	n, _ := w.errFile.ReadAt(buf, off)
	s := string(buf[:n])
	if i := strings.LastIndex(s, "@@REQ "); i >= 0 {
		s = s[i:]
	}
	if len(s) > 6000 {
		s = s[:3000] + "\n…\n" + s[len(s)-3000:]
	}
	return s
}

// Kill terminates the worker.
func (w *Worker) Kill() {
	if w.cmd != nil && w.cmd.Process != nil {
		w.cmd.Process.Kill()
		w.cmd.Wait()
	}
	if w.in != nil {
		w.in.Close()
	}
	if w.errFile != nil {
		w.errFile.Close()
		w.errFile = nil
	}
	w.dead = true
}

// Restart kills and restarts the worker.
func (w *Worker) Restart() error {
	w.Kill()
	return w.start()
}

func (w *Worker) Calls() int { return w.calls }

// Alive reports whether the worker process still answers a ping within a second.
func (w *Worker) Alive() bool {
	if w.dead {
		return false
	}
	r := w.call(&wire.Req{Op: "ping"}, 2*time.Second, false)
	return r.Outcome == OK
}

// Ping asks the worker for a sign of life without restarting it: OK, Crash (the process is gone;
// Stderr has its last words) or Hang (no answer within the timeout, which on a loaded machine is
// no evidence of anything).
func (w *Worker) Ping(timeout time.Duration) Result {
	if w.dead {
		return Result{Outcome: Crash, Stderr: "(worker already dead)\n" + w.stderrTail()}
	}
	return w.call(&wire.Req{Op: "ping"}, timeout, false)
}

// Call sends one request. On crash or hang the worker is restarted before returning.
func (w *Worker) Call(req *wire.Req, timeout time.Duration) Result {
	return w.call(req, timeout, true)
}

// CallNoRestart leaves a crashed worker dead (C19 histories want to see that).
func (w *Worker) CallNoRestart(req *wire.Req, timeout time.Duration) Result {
	return w.call(req, timeout, false)
}

func (w *Worker) call(req *wire.Req, timeout time.Duration, restart bool) Result {
	t0 := time.Now()
	if w.dead {
		if !restart {
			return Result{Outcome: Crash, Stderr: "(worker already dead)"}
		}
		if err := w.start(); err != nil {
			return Result{Outcome: Infra, Stderr: err.Error()}
		}
	}
	w.calls++
	b, err := json.Marshal(req)
	if err != nil {
		return Result{Outcome: Infra, Stderr: err.Error()}
	}
	type rd struct {
		line []byte
		err  error
	}
	ch := make(chan rd, 1)
	go func() {
		if _, err := w.in.Write(append(b, '\n')); err != nil {
			ch <- rd{nil, err}
			return
		}
		line, err := w.out.ReadBytes('\n')
		ch <- rd{line, err}
	}()
	fail := func(o Outcome) Result {
		res := Result{Outcome: o, Elapsed: time.Since(t0)}
		if o == Hang {
			// ask for a goroutine dump before killing
			w.cmd.Process.Signal(syscall.SIGQUIT)
			time.Sleep(150 * time.Millisecond)
		}
		w.cmd.Process.Kill()
		err := w.cmd.Wait()
		if err != nil {
			res.Exit = err.Error()
		}
		if o == Hang {
			<-ch // the reader goroutine ends once the pipe is closed
		}
		res.Stderr = w.stderrTail()
		w.in.Close()
		w.errFile.Close()
		w.errFile = nil
		w.dead = true
		if restart {
			if err := w.start(); err != nil {
				res.Outcome = Infra
				res.Stderr += "\nrestart failed: " + err.Error()
			}
		}
		return res
	}
	select {
	case r := <-ch:
		if r.err != nil {
			return fail(Crash)
		}
		var resp wire.Resp
		if err := json.Unmarshal(r.line, &resp); err != nil {
			return Result{Outcome: Infra, Stderr: "bad response: " + err.Error() + ": " + string(r.line)}
		}
		return Result{Outcome: OK, Resp: &resp, Elapsed: time.Since(t0)}
	case <-time.After(timeout):
		return fail(Hang)
	}
}

// RaceReports returns and truncates what the race detector wrote so far.
func (w *Worker) RaceReports() string {
	if w.RaceLog == "" || w.cmd == nil || w.cmd.Process == nil {
		return ""
	}
	p := fmt.Sprintf("%s.%d", w.RaceLog, w.cmd.Process.Pid)
	b, err := os.ReadFile(p)
	if err != nil || int64(len(b)) <= w.raceOff {
		return ""
	}
	out := string(b[w.raceOff:])
	w.raceOff = int64(len(b))
	return out
}

// Fresh runs one request in a brand-new worker, which is then discarded.
func Fresh(o Options, req *wire.Req, timeout time.Duration) Result {
	w, err := Start(o)
	if err != nil {
		return Result{Outcome: Infra, Stderr: err.Error()}
	}
	defer w.Kill()
	return w.call(req, timeout, false)
}
