// Package report collects what one shard of one check explored and found.
package report

import (
	"encoding/json"
	"hash/fnv"
	"os"
	"sort"
	"sync"
	"time"
)

type Violation struct {
	Msg    string          `json:"msg"`
	Replay string          `json:"replay,omitempty"`
	Case   json.RawMessage `json:"case,omitempty"`
	Size   int             `json:"size"`
}

type Known struct {
	Count int    `json:"count"`
	Msg   string `json:"msg"`
}

type Shard struct {
	Property     string           `json:"property"`
	Tier         string           `json:"tier"`
	Seed         int64            `json:"seed"`
	Shard        int              `json:"shard"`
	Evaluations  int              `json:"evaluations"`
	Hashes       []uint64         `json:"hashes"`
	Samples      []interface{}    `json:"samples"`
	Counters     map[string]int   `json:"counters"`
	Violations   []Violation      `json:"violations"`
	Known        map[string]Known `json:"known"`
	Inconclusive int              `json:"inconclusive"`
	Infra        []string         `json:"infra"`
	WallS        float64          `json:"wall_s"`
	Completed    bool             `json:"completed"`
	Notes        []string         `json:"notes,omitempty"`

	mu     sync.Mutex
	hset   map[uint64]bool
	start  time.Time
	path   string
	nsampl int
}

func New(property, tier string, seed int64, shard int, path string) *Shard {
	return &Shard{Property: property, Tier: tier, Seed: seed, Shard: shard, Counters: map[string]int{},
		Known: map[string]Known{}, hset: map[uint64]bool{}, start: time.Now(), path: path}
}

func Hash(s string) uint64 {
	h := fnv.New64a()
	h.Write([]byte(s))
	return h.Sum64()
}

// Eval counts one evaluated case; key != "" marks it non-trivial (distinct by key).
func (s *Shard) Eval(key string) {
	s.mu.Lock()
	defer s.mu.Unlock()
	s.Evaluations++
	if key != "" {
		s.hset[Hash(key)] = true
	}
}

// NonTrivial marks a case non-trivial without counting another evaluation.
func (s *Shard) NonTrivial(key string) {
	s.mu.Lock()
	defer s.mu.Unlock()
	s.hset[Hash(key)] = true
}

func (s *Shard) Count(label string) { s.Add(label, 1) }

func (s *Shard) Add(label string, n int) {
	s.mu.Lock()
	defer s.mu.Unlock()
	s.Counters[label] += n
}

// Sample keeps a few of the cases (the first two and then every 2^k-th).
func (s *Shard) Sample(v interface{}) {
	s.mu.Lock()
	defer s.mu.Unlock()
	s.nsampl++
	n := s.nsampl
	if len(s.Samples) < 2 || (n&(n-1)) == 0 {
		if len(s.Samples) >= 6 {
			copy(s.Samples[2:], s.Samples[3:])
			s.Samples = s.Samples[:len(s.Samples)-1]
		}
		s.Samples = append(s.Samples, v)
	}
}

func (s *Shard) KnownFinding(id, msg string) {
	s.mu.Lock()
	defer s.mu.Unlock()
	k := s.Known[id]
	k.Count++
	if k.Msg == "" {
		k.Msg = msg
	}
	s.Known[id] = k
}

func (s *Shard) Violate(v Violation) {
	s.mu.Lock()
	defer s.mu.Unlock()
	s.Violations = append(s.Violations, v)
}

func (s *Shard) InfraProblem(msg string) {
	s.mu.Lock()
	defer s.mu.Unlock()
	if len(s.Infra) < 20 {
		s.Infra = append(s.Infra, msg)
	}
}

func (s *Shard) Inconcl() {
	s.mu.Lock()
	defer s.mu.Unlock()
	s.Inconclusive++
}

func (s *Shard) Note(n string) {
	s.mu.Lock()
	defer s.mu.Unlock()
	if len(s.Notes) < 20 {
		s.Notes = append(s.Notes, n)
	}
}

// Write stores the shard file (atomically).
func (s *Shard) Write(completed bool) error {
	s.mu.Lock()
	defer s.mu.Unlock()
	s.Completed = completed
	s.WallS = time.Since(s.start).Seconds()
	s.Hashes = s.Hashes[:0]
	for h := range s.hset {
		s.Hashes = append(s.Hashes, h)
	}
	sort.Slice(s.Hashes, func(i, j int) bool { return s.Hashes[i] < s.Hashes[j] })
	b, err := json.Marshal(s)
	if err != nil {
		return err
	}
	tmp := s.path + ".tmp"
	if err := os.WriteFile(tmp, b, 0644); err != nil {
		return err
	}
	return os.Rename(tmp, s.path)
}
