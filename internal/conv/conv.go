// Package conv turns the worker's parse dump back into the harness AST. It is used only for
// calibrating the reference typechecker on the maintainers' own accept/reject corpus and for
// programs that exist only as text (examples/); generated programs never go through it.
package conv

import (
	"fmt"
	"strings"

	"verif/internal/ast"
	"verif/internal/wire"
)

func modeWord(s string) string {
	if strings.HasPrefix(s, "invalid: ") {
		return strings.TrimPrefix(s, "invalid: ")
	}
	return s
}

// Ty converts a dumped type as parsed (before typechecking): root mode = head annotation.
func Ty(t *wire.Ty, root bool) *ast.Ty {
	if t == nil || t.K == "nil" {
		return nil
	}
	r := &ast.Ty{M: ast.Unset}
	if root && t.M != "unset" && t.M != "" && t.K != "up" && t.K != "down" {
		r.Ann = modeWord(t.M)
	}
	switch t.K {
	case "one":
		r.K = ast.KOne
	case "name":
		r.K, r.Name = ast.KName, t.Name
	case "send":
		r.K, r.L, r.R = ast.KTensor, Ty(t.L, false), Ty(t.R, false)
	case "recv":
		r.K, r.L, r.R = ast.KLolli, Ty(t.L, false), Ty(t.R, false)
	case "plus", "with":
		r.K = ast.KPlus
		if t.K == "with" {
			r.K = ast.KWith
		}
		for _, b := range t.Brs {
			r.Brs = append(r.Brs, ast.Br{L: b.L, T: Ty(b.T, false)})
		}
	case "up", "down":
		r.K = ast.KUp
		if t.K == "down" {
			r.K = ast.KDown
		}
		r.FromW, r.ToW = modeWord(t.From), modeWord(t.To)
		r.L = Ty(t.C, false)
	}
	return r
}

func nm(n wire.NameD, alias string) ast.Nm {
	r := ast.Nm{S: n.Ident, Self: n.IsSelf}
	if n.IsSelf && n.Ident != "" && n.Ident == alias {
		r.Self = false // the explicit provider name of `let f[w : T]`
	} else if n.IsSelf {
		r.S = ""
	}
	switch n.Pol {
	case "+":
		r.Pol = 1
	case "-":
		r.Pol = -1
	}
	return r
}

// Term converts a dumped form.
func Term(f *wire.Form, alias string) (*ast.Term, error) {
	if f == nil {
		return nil, fmt.Errorf("nil form")
	}
	n := func(k string) ast.Nm { return nm(f.Names[k], alias) }
	sub := func(k string) (*ast.Term, error) { return Term(f.Subs[k], alias) }
	t := &ast.Term{}
	var err error
	switch f.F {
	case "SendForm":
		t.Kind, t.X, t.Y, t.Z = ast.TSend, n("to_c"), n("payload_c"), n("continuation_c")
	case "ReceiveForm":
		t.Kind, t.X, t.Y, t.Z = ast.TRecv, n("payload_c"), n("continuation_c"), n("from_c")
		t.K, err = sub("continuation_e")
	case "SelectForm":
		t.Kind, t.X, t.Y, t.Label = ast.TSel, n("to_c"), n("continuation_c"), f.Label
	case "CaseForm":
		t.Kind, t.X = ast.TCase, n("from_c")
		for _, b := range f.Brs {
			k, e := Term(b.Subs["continuation_e"], alias)
			if e != nil {
				return nil, e
			}
			t.Brs = append(t.Brs, ast.Branch{Label: b.Label, Payload: nm(b.Names["payload_c"], alias), K: k})
		}
	case "NewForm":
		t.Kind, t.X = ast.TNew, n("new_name_c")
		if ty := f.Names["new_name_c"].Ty; ty != nil {
			t.Ann = Ty(ty, true)
		}
		if t.Body, err = sub("body"); err != nil {
			return nil, err
		}
		t.K, err = sub("continuation_e")
	case "CallForm":
		t.Kind, t.Fn = ast.TCall, f.Fn
		for _, p := range f.Params {
			t.Args = append(t.Args, nm(p, alias))
		}
	case "CloseForm":
		t.Kind, t.X = ast.TClose, n("from_c")
	case "ForwardForm":
		t.Kind, t.X, t.Y = ast.TFwd, n("to_c"), n("from_c")
	case "SplitForm":
		t.Kind, t.X, t.Y, t.Z = ast.TSplit, n("channel_one"), n("channel_two"), n("from_c")
		t.K, err = sub("continuation_e")
	case "WaitForm":
		t.Kind, t.X = ast.TWait, n("to_c")
		t.K, err = sub("continuation_e")
	case "CastForm":
		t.Kind, t.X, t.Y = ast.TCast, n("to_c"), n("continuation_c")
	case "ShiftForm":
		t.Kind, t.X, t.Z = ast.TShift, n("continuation_c"), n("from_c")
		t.K, err = sub("continuation_e")
	case "DropForm":
		t.Kind, t.X = ast.TDrop, n("client_c")
		t.K, err = sub("continuation_e")
	case "PrintForm":
		t.Kind, t.Label = ast.TPrint, f.Label
		t.K, err = sub("continuation_e")
	default:
		return nil, fmt.Errorf("unknown form %s", f.F)
	}
	return t, err
}

// Program converts a parse dump (taken with types on names) into a program.
func Program(d *wire.Dump) (*ast.Program, error) {
	p := &ast.Program{}
	for _, t := range d.Types {
		p.Decls = append(p.Decls, &ast.Decl{Kind: ast.DType, Name: t.Name, Ty: Ty(t.Type, true)})
	}
	for _, f := range d.Funcs {
		dc := &ast.Decl{Kind: ast.DFun, Name: f.Name, Explicit: f.Explicit, Ty: Ty(f.Type, true)}
		for _, pa := range f.Params {
			dc.Params = append(dc.Params, ast.Param{Name: pa.Ident, Ty: Ty(pa.Ty, true)})
		}
		b, err := Term(f.Body, f.Explicit)
		if err != nil {
			return nil, err
		}
		dc.Body = b
		p.Decls = append(p.Decls, dc)
	}
	if len(d.Assumed) > 0 {
		dc := &ast.Decl{Kind: ast.DAssume}
		for _, a := range d.Assumed {
			dc.Params = append(dc.Params, ast.Param{Name: a.Ident, Ty: Ty(a.Ty, true)})
		}
		p.Decls = append(p.Decls, dc)
	}
	for _, pr := range d.Procs {
		if len(pr.Providers) == 1 && strings.HasPrefix(pr.Providers[0], "exec") && pr.Body != nil && pr.Body.F == "CallForm" {
			p.Decls = append(p.Decls, &ast.Decl{Kind: ast.DExec, Name: pr.Body.Fn})
			continue
		}
		b, err := Term(pr.Body, "")
		if err != nil {
			return nil, err
		}
		p.Decls = append(p.Decls, &ast.Decl{Kind: ast.DPrc, Providers: pr.Providers, Ty: Ty(pr.Type, true), Body: b})
	}
	return p, nil
}
