// Package refcheck is the reference typechecker: the adjoint semi-axiomatic session type
// system restricted to Grits' documented syntax and conventions (DESIGN.md, Appendix A).
// It answers accept / reject(reason) / unknown and shares no code with Grits.
package refcheck

import (
	"fmt"

	"verif/internal/ast"
	"verif/internal/reftypes"
)

// Reason classes.
const (
	// substructural
	Unused        = "unused"         // a channel is left in the context at an axiom
	Reused        = "reused"         // a channel that was already consumed is used again
	Shadow        = "shadow"         // a binder is not fresh w.r.t. the live names (or names the provider)
	IllegalDrop   = "illegal-drop"   // drop of a channel whose mode has no weakening
	IllegalSplit  = "illegal-split"  // split of a channel whose mode has no contraction
	MultiProvider = "multi-provider" // several provider names for a non-contractable type
	// modes
	Independence = "independence" // a dependency is weaker than the provider
	ShiftMode    = "shift-mode"   // cast/shift continuation at the wrong mode
	// structure
	HeadCons    = "head-constructor"
	TypeMis     = "type-mismatch"
	Label       = "label"
	Coverage    = "coverage"
	Arity       = "arity"
	Signature   = "signature"
	UndefFun    = "undefined-function"
	Unbound     = "unbound-name"
	MisuseSelf  = "misuse-self"
	CutBody     = "cut-body"
	TopCycle    = "toplevel-cycle" // top-level processes that use each other in a cycle
	MissingAnn  = "missing-annotation"
	IllType     = "ill-formed-type"
	Polarity    = "polarity"
	TopLevel    = "top-level"
	DupDecl     = "duplicate-declaration"
	CutAnnot    = "cut-annotation" // annotation of a cut disagrees with the callee's type (N5)
)

var Substructural = map[string]bool{Unused: true, Reused: true, Shadow: true, IllegalDrop: true, IllegalSplit: true, MultiProvider: true}
var ModeReasons = map[string]bool{Independence: true, ShiftMode: true}

type Verdict struct {
	Accept  bool
	Unknown bool
	Reason  string
	Detail  string
	Where   string // declaration
	Site    string // for independence: "function" | "cut-call" | "cut-axiom" | "prc"
}

func (v Verdict) String() string {
	switch {
	case v.Unknown:
		return "unknown(" + v.Detail + ")"
	case v.Accept:
		return "accept"
	}
	return fmt.Sprintf("reject(%s: %s in %s)", v.Reason, v.Detail, v.Where)
}

type rej struct {
	reason, detail, site string
	unknown              bool
}

func (r *rej) Error() string { return r.reason + ": " + r.detail }

func reject(reason, format string, a ...interface{}) *rej {
	return &rej{reason: reason, detail: fmt.Sprintf(format, a...)}
}

func unknown(format string, a ...interface{}) *rej {
	return &rej{unknown: true, detail: fmt.Sprintf(format, a...)}
}

type sig struct {
	params []*ast.Ty
	names  []string
	ret    *ast.Ty
	decl   *ast.Decl
}

type Checker struct {
	Env  *reftypes.Env
	sigs map[string]*sig
	// Options describing the tree under test
	CheckTopLevelIndependence bool // K1: the declarative system demands it; Grits does not check it
	Judgements                []Judgement
}

// Judgement records one typing judgement Γ ⊢ P :: (c : A_m) met while checking (C06).
type Judgement struct {
	Site     string
	Where    string
	Provider ast.Mode
	Deps     []ast.Mode
}

type ctx struct {
	g        map[string]*ast.Ty
	consumed map[string]bool
}

func (c *ctx) clone() *ctx {
	n := &ctx{g: map[string]*ast.Ty{}, consumed: map[string]bool{}}
	for k, v := range c.g {
		n.g[k] = v
	}
	for k, v := range c.consumed {
		n.consumed[k] = v
	}
	return n
}

func (c *ctx) consume(n ast.Nm) (*ast.Ty, *rej) {
	if n.Self {
		return nil, reject(MisuseSelf, "self used where a client channel is expected")
	}
	t, ok := c.g[n.S]
	if !ok {
		if c.consumed[n.S] {
			return nil, reject(Reused, "channel %s is used again after it was consumed", n.S)
		}
		return nil, reject(Unbound, "name %s is not in scope", n.S)
	}
	delete(c.g, n.S)
	c.consumed[n.S] = true
	return t, nil
}

func (c *ctx) bind(name string, t *ast.Ty) {
	c.g[name] = t
	delete(c.consumed, name)
}

func (c *ctx) empty() *rej {
	if len(c.g) > 0 {
		var ns []string
		for k := range c.g {
			ns = append(ns, k)
		}
		return reject(Unused, "channels left unused: %v", ns)
	}
	return nil
}

// FreeNames computes the free channel names of a term (lexical scoping; self excluded).
func FreeNames(t *ast.Term) []string {
	var out []string
	seen := map[string]bool{}
	var walk func(t *ast.Term, bound map[string]bool)
	use := func(n ast.Nm, bound map[string]bool) {
		if n.Self || bound[n.S] || seen[n.S] {
			return
		}
		seen[n.S] = true
		out = append(out, n.S)
	}
	with := func(bound map[string]bool, ns ...ast.Nm) map[string]bool {
		b := map[string]bool{}
		for k := range bound {
			b[k] = true
		}
		for _, n := range ns {
			if !n.Self {
				b[n.S] = true
			}
		}
		return b
	}
	walk = func(t *ast.Term, bound map[string]bool) {
		if t == nil {
			return
		}
		switch t.Kind {
		case ast.TSend:
			use(t.X, bound)
			use(t.Y, bound)
			use(t.Z, bound)
		case ast.TRecv, ast.TSplit:
			use(t.Z, bound)
			walk(t.K, with(bound, t.X, t.Y))
		case ast.TSel, ast.TCast, ast.TFwd:
			use(t.X, bound)
			use(t.Y, bound)
		case ast.TCase:
			use(t.X, bound)
			for _, b := range t.Brs {
				walk(b.K, with(bound, b.Payload))
			}
		case ast.TNew:
			walk(t.Body, bound)
			walk(t.K, with(bound, t.X))
		case ast.TCall:
			for _, a := range t.Args {
				use(a, bound)
			}
		case ast.TClose:
			use(t.X, bound)
		case ast.TWait, ast.TDrop:
			use(t.X, bound)
			walk(t.K, bound)
		case ast.TShift:
			use(t.Z, bound)
			walk(t.K, with(bound, t.X))
		case ast.TPrint:
			walk(t.K, bound)
		}
	}
	walk(t, map[string]bool{})
	return out
}

func contains(xs []string, s string) bool {
	for _, x := range xs {
		if x == s {
			return true
		}
	}
	return false
}

// ---------- the judgement ----------

type prov struct {
	shadow string  // name bound by the last right rule that stands for the provider ("" = none)
	ty     *ast.Ty // provider type (resolved)
	alias  string  // explicit provider name of `let f[w : T, ...]` (stands for self throughout the body)
}

func (p prov) is(n ast.Nm) bool {
	return n.Self || (p.shadow != "" && n.S == p.shadow) || (p.alias != "" && n.S == p.alias)
}

func (p prov) to(shadow string, ty *ast.Ty) prov { return prov{shadow: shadow, ty: ty, alias: p.alias} }

func (ck *Checker) unf(t *ast.Ty) *ast.Ty { return ck.Env.Unfold(t) }

func (ck *Checker) eq(a, b *ast.Ty) bool { return ck.Env.Equal(a, b) }

func polOK(n ast.Nm, t *ast.Ty) bool {
	if n.Pol == 0 || t == nil {
		return true
	}
	return (n.Pol > 0) == t.Positive()
}

func (ck *Checker) pol(pairs ...interface{}) *rej {
	for i := 0; i+1 < len(pairs); i += 2 {
		n := pairs[i].(ast.Nm)
		t, _ := pairs[i+1].(*ast.Ty)
		if t != nil {
			t = ck.unf(t)
		}
		if !polOK(n, t) {
			return reject(Polarity, "explicit polarity of %s contradicts its type", n)
		}
	}
	return nil
}

func weird(ns ...ast.Nm) *rej {
	for _, n := range ns {
		if n.Self {
			return unknown("self used as a binder")
		}
	}
	return nil
}

func (ck *Checker) fresh(c *ctx, p prov, ns ...ast.Nm) *rej {
	for i, n := range ns {
		if p.alias != "" && n.S == p.alias {
			return unknown("binder named like the explicit provider")
		}
		if _, live := c.g[n.S]; live {
			return reject(Shadow, "binder %s is not fresh: a channel of that name is still owed a use", n.S)
		}
		if p.shadow != "" && n.S == p.shadow {
			return reject(Shadow, "binder %s would capture the provider name", n.S)
		}
		for _, m := range ns[:i] {
			if m.S == n.S {
				return reject(Shadow, "binders are not distinct: %s", n.S)
			}
		}
	}
	return nil
}

func (ck *Checker) check(c *ctx, p prov, t *ast.Term, where string) *rej {
	switch t.Kind {
	case ast.TPrint:
		return ck.check(c, p, t.K, where)

	case ast.TSend:
		switch {
		case p.is(t.X): // ⊗R
			a := ck.unf(p.ty)
			if a.K != ast.KTensor {
				return reject(HeadCons, "send on a provider of type %s", a.Text())
			}
			ty, e := c.consume(t.Y)
			if e != nil {
				return e
			}
			tz, e := c.consume(t.Z)
			if e != nil {
				return e
			}
			if !ck.eq(a.L, ty) {
				return reject(TypeMis, "payload %s has the wrong type", t.Y)
			}
			if !ck.eq(a.R, tz) {
				return reject(TypeMis, "continuation %s has the wrong type", t.Z)
			}
			if e := ck.pol(t.X, a, t.Y, ty, t.Z, tz); e != nil {
				return e
			}
			return c.empty()
		case p.is(t.Z): // ⊸L
			tx, e := c.consume(t.X)
			if e != nil {
				return e
			}
			a := ck.unf(tx)
			if a.K != ast.KLolli {
				return reject(HeadCons, "send to %s of type %s", t.X, a.Text())
			}
			ty, e := c.consume(t.Y)
			if e != nil {
				return e
			}
			if !ck.eq(a.L, ty) {
				return reject(TypeMis, "payload %s has the wrong type", t.Y)
			}
			if !ck.eq(a.R, p.ty) {
				return reject(TypeMis, "the provider does not have the continuation type of %s", t.X)
			}
			if e := ck.pol(t.X, a, t.Y, ty, t.Z, p.ty); e != nil {
				return e
			}
			return c.empty()
		}
		return reject(MisuseSelf, "send must be on self or pass self as continuation")

	case ast.TRecv:
		if w := weird(t.X, t.Y); w != nil {
			if p.is(t.Z) {
				return w
			}
			return reject(MisuseSelf, "self cannot be bound")
		}
		if p.is(t.Z) { // ⊸R
			a := ck.unf(p.ty)
			if a.K != ast.KLolli {
				return reject(HeadCons, "receive on a provider of type %s", a.Text())
			}
			if e := ck.fresh(c, prov{alias: p.alias}, t.X, t.Y); e != nil {
				return e
			}
			c.bind(t.X.S, a.L)
			if e := ck.pol(t.Z, a, t.X, a.L, t.Y, a.R); e != nil {
				return e
			}
			return ck.check(c, p.to(t.Y.S, a.R), t.K, where)
		}
		if p.is(t.X) || p.is(t.Y) {
			return reject(MisuseSelf, "the provider cannot be bound by a receive")
		}
		tz, e := c.consume(t.Z) // ⊗L
		if e != nil {
			return e
		}
		a := ck.unf(tz)
		if a.K != ast.KTensor {
			return reject(HeadCons, "receive from %s of type %s", t.Z, a.Text())
		}
		if e := ck.fresh(c, p, t.X, t.Y); e != nil {
			return e
		}
		c.bind(t.X.S, a.L)
		c.bind(t.Y.S, a.R)
		if e := ck.pol(t.Z, a, t.X, a.L, t.Y, a.R); e != nil {
			return e
		}
		return ck.check(c, p, t.K, where)

	case ast.TSel:
		switch {
		case p.is(t.X): // ⊕R
			a := ck.unf(p.ty)
			if a.K != ast.KPlus {
				return reject(HeadCons, "select on a provider of type %s", a.Text())
			}
			bt := branch(a, t.Label)
			if bt == nil {
				return reject(Label, "label %s is not in %s", t.Label, a.Text())
			}
			ty, e := c.consume(t.Y)
			if e != nil {
				return e
			}
			if !ck.eq(bt, ty) {
				return reject(TypeMis, "continuation %s has the wrong type", t.Y)
			}
			if e := ck.pol(t.X, a, t.Y, ty); e != nil {
				return e
			}
			return c.empty()
		case p.is(t.Y): // &L
			tx, e := c.consume(t.X)
			if e != nil {
				return e
			}
			a := ck.unf(tx)
			if a.K != ast.KWith {
				return reject(HeadCons, "select on %s of type %s", t.X, a.Text())
			}
			bt := branch(a, t.Label)
			if bt == nil {
				return reject(Label, "label %s is not in %s", t.Label, a.Text())
			}
			if !ck.eq(bt, p.ty) {
				return reject(TypeMis, "the provider does not have the type of branch %s", t.Label)
			}
			if e := ck.pol(t.X, a, t.Y, p.ty); e != nil {
				return e
			}
			return c.empty()
		}
		return reject(MisuseSelf, "select must be on self or pass self as continuation")

	case ast.TCase:
		right := p.is(t.X)
		var a *ast.Ty
		if right { // &R
			a = ck.unf(p.ty)
			if a.K != ast.KWith {
				return reject(HeadCons, "case on a provider of type %s", a.Text())
			}
		} else { // ⊕L
			tx, e := c.consume(t.X)
			if e != nil {
				return e
			}
			a = ck.unf(tx)
			if a.K != ast.KPlus {
				return reject(HeadCons, "case on %s of type %s", t.X, a.Text())
			}
		}
		seen := map[string]bool{}
		for _, b := range t.Brs {
			if seen[b.Label] {
				return reject(Coverage, "label %s matched twice", b.Label)
			}
			seen[b.Label] = true
			bt := branch(a, b.Label)
			if bt == nil {
				return reject(Label, "label %s is not in %s", b.Label, a.Text())
			}
			if b.Payload.Self {
				return unknown("self as a branch payload")
			}
			c2 := c.clone()
			if e := ck.pol(b.Payload, bt); e != nil {
				return e
			}
			if right {
				if e := ck.fresh(c2, prov{alias: p.alias}, b.Payload); e != nil {
					return e
				}
				if e := ck.check(c2, p.to(b.Payload.S, bt), b.K, where); e != nil {
					return e
				}
			} else {
				if e := ck.fresh(c2, p, b.Payload); e != nil {
					return e
				}
				c2.bind(b.Payload.S, bt)
				if e := ck.check(c2, p, b.K, where); e != nil {
					return e
				}
			}
		}
		if len(seen) != len(a.Brs) {
			return reject(Coverage, "not every label of %s is matched", a.Text())
		}
		if !right {
			if e := ck.pol(t.X, a); e != nil {
				return e
			}
		} else if e := ck.pol(t.X, a); e != nil {
			return e
		}
		return nil

	case ast.TNew:
		if t.X.Self {
			return unknown("self as the name of a cut")
		}
		if p.alias != "" && t.X.S == p.alias {
			return unknown("cut named like the explicit provider")
		}
		if p.shadow != "" && t.X.S == p.shadow {
			// lexically this merely hides the provider's alias; Grits' treatment depends on later uses
			return unknown("cut named like the provider alias %s", t.X.S)
		}
		_, reuse := c.g[t.X.S]
		fv := FreeNames(t.Body)
		if !reuse && contains(fv, t.X.S) {
			return reject(Unbound, "%s is used inside the process it names", t.X.S)
		}
		if reuse && !contains(fv, t.X.S) {
			return reject(Shadow, "%s is rebound while a channel of that name is still owed a use", t.X.S)
		}
		if t.Body.HasContinuation() {
			return reject(CutBody, "the body of a cut must be an axiom or a call")
		}
		if p.alias != "" && contains(fv, p.alias) {
			// Grits reads the explicit provider name inside a spawned body as the spawned process' self
			return unknown("explicit provider name used inside a cut body")
		}
		left := &ctx{g: map[string]*ast.Ty{}, consumed: map[string]bool{}}
		take := func(names []ast.Nm) *rej {
			for _, n := range names {
				if n.Self {
					continue
				}
				if _, dup := left.g[n.S]; dup {
					continue // second occurrence: the body's own rule reports the re-use
				}
				ty, e := c.consume(n)
				if e != nil {
					return e
				}
				left.bind(n.S, ty)
			}
			return nil
		}
		var bodyTy *ast.Ty
		if t.Body.Kind == ast.TCall {
			if reuse {
				// a <- new f(.. a ..): a is passed as an ordinary argument
			}
			if e := take(t.Body.Args); e != nil {
				return e
			}
			s := ck.sigs[t.Body.Fn]
			if s == nil {
				return reject(UndefFun, "function %s is not defined", t.Body.Fn)
			}
			bodyTy = s.ret
			if t.Ann != nil {
				at, ill := ck.Env.ResolveAnn(t.Ann, where)
				if ill != nil {
					return &rej{reason: CutAnnot, detail: "annotation of " + t.X.S + ": " + ill.Error()}
				}
				if !ck.eq(at, bodyTy) {
					return reject(CutAnnot, "%s is annotated %s but %s provides %s", t.X.S, t.Ann.Text(), t.Body.Fn, bodyTy.Text())
				}
			}
			if reuse && len(t.Body.Args) == len(s.params)+1 {
				return unknown("re-used cut name passed as explicit self")
			}
		} else {
			var ns []ast.Nm
			for _, n := range fv {
				ns = append(ns, ast.N(n))
			}
			if e := take(ns); e != nil {
				return e
			}
			if t.Ann == nil {
				return reject(MissingAnn, "%s needs a type annotation", t.X.S)
			}
			at, ill := ck.Env.ResolveAnn(t.Ann, where)
			if ill != nil {
				return &rej{reason: IllType, detail: ill.Error()}
			}
			bodyTy = at
		}
		site := "cut-axiom"
		if t.Body.Kind == ast.TCall {
			site = "cut-call"
		}
		j := Judgement{Site: site, Where: where, Provider: bodyTy.M}
		for _, ty := range left.g {
			j.Deps = append(j.Deps, ty.M)
		}
		ck.Judgements = append(ck.Judgements, j)
		for n, ty := range left.g {
			if !ast.Geq(ty.M, bodyTy.M) {
				return &rej{reason: Independence, site: site, detail: fmt.Sprintf("%s (mode %s) is weaker than the spawned provider %s (mode %s)", n, ty.M, t.X.S, bodyTy.M)}
			}
		}
		if !ast.Geq(bodyTy.M, p.ty.M) {
			return &rej{reason: Independence, site: site, detail: fmt.Sprintf("%s (mode %s) is weaker than the current provider (mode %s)", t.X.S, bodyTy.M, p.ty.M)}
		}
		if reuse && t.Body.Kind != ast.TCall {
			// `x : T <- new B` where x is live and B mentions x. Lexically the x inside B is the old
			// channel (B's own provider is `self`); Grits reads an x in a provider position of B as
			// the new process. The verdict is definite only when both readings agree.
			lex := ck.check(left.clone(), prov{ty: bodyTy}, t.Body, where)
			gri := ck.check(left.clone(), prov{shadow: t.X.S, ty: bodyTy}, t.Body, where)
			switch {
			case lex != nil && lex.unknown:
				return lex
			case gri != nil && gri.unknown:
				return gri
			case (lex == nil) != (gri == nil):
				return unknown("cut re-using a live name whose body mentions it in a provider position")
			case lex != nil:
				return lex
			}
		} else if e := ck.check(left, prov{shadow: t.X.S, ty: bodyTy}, t.Body, where); e != nil {
			return e
		}
		c.bind(t.X.S, bodyTy)
		if e := ck.pol(t.X, bodyTy); e != nil {
			return e
		}
		return ck.check(c, p, t.K, where)

	case ast.TCall:
		s := ck.sigs[t.Fn]
		if s == nil {
			return reject(UndefFun, "function %s is not defined", t.Fn)
		}
		args := t.Args
		switch len(args) {
		case len(s.params) + 1:
			if !p.is(args[0]) {
				return reject(Arity, "first argument of %s should be the provider", t.Fn)
			}
			args = args[1:]
		case len(s.params):
		default:
			return reject(Arity, "%s expects %d arguments", t.Fn, len(s.params))
		}
		if !ck.eq(p.ty, s.ret) {
			return reject(Signature, "%s provides another type than the current provider", t.Fn)
		}
		for i, a := range args {
			ty, e := c.consume(a)
			if e != nil {
				return e
			}
			if !ck.eq(ty, s.params[i]) {
				return reject(Signature, "argument %s of %s has the wrong type", a, t.Fn)
			}
			if e := ck.pol(a, ty); e != nil {
				return e
			}
		}
		return c.empty()

	case ast.TClose:
		a := ck.unf(p.ty)
		if !p.is(t.X) {
			if a.K == ast.KOne {
				return reject(MisuseSelf, "close must be on self")
			}
			return reject(HeadCons, "close on a provider of type %s", a.Text())
		}
		if a.K != ast.KOne {
			return reject(HeadCons, "close on a provider of type %s", a.Text())
		}
		if e := ck.pol(t.X, a); e != nil {
			return e
		}
		return c.empty()

	case ast.TWait:
		if p.is(t.X) {
			return reject(MisuseSelf, "wait on the provider")
		}
		tx, e := c.consume(t.X)
		if e != nil {
			return e
		}
		a := ck.unf(tx)
		if a.K != ast.KOne {
			return reject(HeadCons, "wait on %s of type %s", t.X, a.Text())
		}
		if e := ck.pol(t.X, a); e != nil {
			return e
		}
		return ck.check(c, p, t.K, where)

	case ast.TFwd:
		if p.is(t.Y) {
			return reject(MisuseSelf, "forwarding the provider to itself")
		}
		if !p.is(t.X) {
			return reject(MisuseSelf, "forward must be to self")
		}
		ty, e := c.consume(t.Y)
		if e != nil {
			return e
		}
		if !ck.eq(p.ty, ty) {
			return reject(TypeMis, "forwarded channel %s has another type than the provider", t.Y)
		}
		if e := ck.pol(t.X, p.ty, t.Y, ty); e != nil {
			return e
		}
		return c.empty()

	case ast.TDrop:
		if p.is(t.X) {
			return reject(MisuseSelf, "dropping the provider")
		}
		tx, e := c.consume(t.X)
		if e != nil {
			return e
		}
		if !tx.M.W() {
			return reject(IllegalDrop, "%s has mode %s, which does not admit weakening", t.X, tx.M)
		}
		if e := ck.pol(t.X, tx); e != nil {
			return e
		}
		return ck.check(c, p, t.K, where)

	case ast.TSplit:
		if w := weird(t.X, t.Y); w != nil {
			return w
		}
		if p.is(t.Z) {
			return reject(MisuseSelf, "splitting the provider")
		}
		tz, e := c.consume(t.Z)
		if e != nil {
			return e
		}
		if p.shadow != "" && (t.X.S == p.shadow || t.Y.S == p.shadow) {
			return unknown("split binder named like the provider alias %s", p.shadow)
		}
		if e := ck.fresh(c, p, t.X, t.Y); e != nil {
			return e
		}
		if !tz.M.C() {
			return reject(IllegalSplit, "%s has mode %s, which does not admit contraction", t.Z, tz.M)
		}
		c.bind(t.X.S, tz)
		c.bind(t.Y.S, tz)
		if e := ck.pol(t.Z, tz, t.X, tz, t.Y, tz); e != nil {
			return e
		}
		return ck.check(c, p, t.K, where)

	case ast.TCast:
		switch {
		case p.is(t.X): // ↓R
			a := ck.unf(p.ty)
			if a.K != ast.KDown {
				return reject(HeadCons, "cast on a provider of type %s", a.Text())
			}
			ty, e := c.consume(t.Y)
			if e != nil {
				return e
			}
			if ty.M != a.L.M {
				return reject(ShiftMode, "%s has mode %s, the shift expects %s", t.Y, ty.M, a.L.M)
			}
			if !ck.eq(a.L, ty) {
				return reject(TypeMis, "%s has the wrong type", t.Y)
			}
			if e := ck.pol(t.X, a, t.Y, ty); e != nil {
				return e
			}
			return c.empty()
		case p.is(t.Y): // ↑L
			tx, e := c.consume(t.X)
			if e != nil {
				return e
			}
			a := ck.unf(tx)
			if a.K != ast.KUp {
				return reject(HeadCons, "cast to %s of type %s", t.X, a.Text())
			}
			if p.ty.M != a.L.M {
				return reject(ShiftMode, "the provider has mode %s, the shift expects %s", p.ty.M, a.L.M)
			}
			if !ck.eq(a.L, p.ty) {
				return reject(TypeMis, "the provider does not have the shifted type of %s", t.X)
			}
			if e := ck.pol(t.X, a, t.Y, p.ty); e != nil {
				return e
			}
			return c.empty()
		}
		return reject(MisuseSelf, "cast must be on self or pass self")

	case ast.TShift:
		if w := weird(t.X); w != nil {
			if p.is(t.Z) {
				return w
			}
			return reject(MisuseSelf, "self cannot be bound")
		}
		if p.is(t.Z) { // ↑R
			a := ck.unf(p.ty)
			if a.K != ast.KUp {
				return reject(HeadCons, "shift on a provider of type %s", a.Text())
			}
			if e := ck.fresh(c, prov{alias: p.alias}, t.X); e != nil {
				return e
			}
			if e := ck.pol(t.Z, a, t.X, a.L); e != nil {
				return e
			}
			return ck.check(c, p.to(t.X.S, a.L), t.K, where)
		}
		if p.is(t.X) {
			return reject(MisuseSelf, "the provider cannot be bound by a shift")
		}
		tz, e := c.consume(t.Z) // ↓L
		if e != nil {
			return e
		}
		a := ck.unf(tz)
		if a.K != ast.KDown {
			return reject(HeadCons, "shift from %s of type %s", t.Z, a.Text())
		}
		if e := ck.fresh(c, p, t.X); e != nil {
			return e
		}
		c.bind(t.X.S, a.L)
		if e := ck.pol(t.Z, a, t.X, a.L); e != nil {
			return e
		}
		return ck.check(c, p, t.K, where)
	}
	return unknown("unknown term kind")
}

func branch(a *ast.Ty, l string) *ast.Ty {
	for _, b := range a.Brs {
		if b.L == l {
			return b.T
		}
	}
	return nil
}

// markSelf reports the provider name under which `self` is also known in a declaration body:
// the single name of prc[a], or the explicit provider of let f[w : T, ...].
func provName(d *ast.Decl) string {
	if d.Kind == ast.DPrc && len(d.Providers) == 1 {
		return d.Providers[0]
	}
	if d.Kind == ast.DFun {
		return d.Explicit
	}
	return ""
}

// Program checks a whole program.
func Program(p *ast.Program, topLevelIndependence bool) (Verdict, *Checker) {
	ck := &Checker{sigs: map[string]*sig{}, CheckTopLevelIndependence: topLevelIndependence}
	fail := func(where string, e *rej) (Verdict, *Checker) {
		if e.unknown {
			return Verdict{Unknown: true, Detail: e.detail, Where: where}, ck
		}
		return Verdict{Reason: e.reason, Detail: e.detail, Where: where, Site: e.site}, ck
	}
	env, ill := reftypes.Resolve(p.Types())
	if ill != nil {
		return fail(ill.Where, &rej{reason: IllType, detail: ill.Error(), site: ill.Reason})
	}
	ck.Env = env
	// functions
	for _, d := range p.Funs() {
		where := "function " + d.Name
		if ck.sigs[d.Name] != nil {
			return fail(where, reject(DupDecl, "function %s defined twice", d.Name))
		}
		if d.Ty == nil {
			return fail(where, reject(MissingAnn, "function %s has no provider type", d.Name))
		}
		s := &sig{decl: d}
		seen := map[string]bool{}
		for _, pa := range d.Params {
			if pa.Ty == nil {
				return fail(where, reject(MissingAnn, "parameter %s has no type", pa.Name))
			}
			if seen[pa.Name] {
				return fail(where, reject(DupDecl, "parameter %s repeated", pa.Name))
			}
			seen[pa.Name] = true
		}
		rt, ill := env.ResolveAnn(d.Ty, where)
		if ill != nil {
			return fail(where, &rej{reason: IllType, detail: ill.Error(), site: ill.Reason})
		}
		s.ret = rt
		for _, pa := range d.Params {
			pt, ill := env.ResolveAnn(pa.Ty, where)
			if ill != nil {
				return fail(where, &rej{reason: IllType, detail: ill.Error(), site: ill.Reason})
			}
			s.params = append(s.params, pt)
			s.names = append(s.names, pa.Name)
		}
		j := Judgement{Site: "function", Where: where, Provider: rt.M}
		for _, pt := range s.params {
			j.Deps = append(j.Deps, pt.M)
		}
		ck.Judgements = append(ck.Judgements, j)
		for i, pt := range s.params {
			if !ast.Geq(pt.M, rt.M) {
				return fail(where, &rej{reason: Independence, site: "function", detail: fmt.Sprintf("parameter %s (mode %s) is weaker than the provider (mode %s)", s.names[i], pt.M, rt.M)})
			}
		}
		ck.sigs[d.Name] = s
	}
	// processes: preliminary checks
	assumed := map[string]*ast.Ty{}
	assumedUsed := map[string]bool{}
	for _, d := range p.Decls {
		if d.Kind != ast.DAssume {
			continue
		}
		for _, pa := range d.Params {
			if _, dup := assumed[pa.Name]; dup {
				return fail("assuming", reject(DupDecl, "assumed name %s repeated", pa.Name))
			}
			if pa.Ty == nil {
				return fail("assuming", reject(MissingAnn, "assumed name %s has no type", pa.Name))
			}
			assumed[pa.Name] = nil
		}
	}
	for _, d := range p.Decls {
		if d.Kind != ast.DAssume {
			continue
		}
		for _, pa := range d.Params {
			t, ill := env.ResolveAnn(pa.Ty, "assuming")
			if ill != nil {
				return fail("assuming", &rej{reason: IllType, detail: ill.Error(), site: ill.Reason})
			}
			assumed[pa.Name] = t
		}
	}
	type procInfo struct {
		d     *ast.Decl
		names []string
		ty    *ast.Ty
		body  *ast.Term
	}
	var procs []*procInfo
	execN := 0
	for _, d := range p.Decls {
		if d.Kind == ast.DPrc {
			procs = append(procs, &procInfo{d: d, names: d.Providers, body: d.Body})
		}
	}
	for _, d := range p.Decls {
		if d.Kind == ast.DExec {
			execN++
			pi := &procInfo{d: d, names: []string{fmt.Sprintf("exec%d", execN)}, body: &ast.Term{Kind: ast.TCall, Fn: d.Name}}
			procs = append(procs, pi)
		}
	}
	provOf := map[string]*procInfo{}
	for _, pi := range procs {
		seen := map[string]bool{}
		for _, n := range pi.names {
			if seen[n] {
				return fail("prc", reject(DupDecl, "provider %s repeated", n))
			}
			seen[n] = true
		}
		for _, n := range pi.names {
			if provOf[n] != nil {
				return fail("prc", reject(DupDecl, "provider name %s used by two processes", n))
			}
			provOf[n] = pi
		}
	}
	for n := range provOf {
		if _, a := assumed[n]; a {
			return fail("prc", reject(DupDecl, "assumed name %s is also a process", n))
		}
	}
	used := map[string]bool{}
	for _, pi := range procs {
		where := "prc[" + pi.names[0] + "]"
		var ty *ast.Ty
		if pi.d.Kind == ast.DExec {
			s := ck.sigs[pi.d.Name]
			if s == nil || len(s.params) != 0 {
				return Verdict{Unknown: true, Detail: "exec of an unknown or non-nullary function is refused by the parser", Where: where}, ck
			}
			ty = s.ret
		} else {
			if pi.d.Ty == nil {
				return fail(where, reject(MissingAnn, "process has no type"))
			}
			t, ill := env.ResolveAnn(pi.d.Ty, where)
			if ill != nil {
				return fail(where, &rej{reason: IllType, detail: ill.Error(), site: ill.Reason})
			}
			ty = t
		}
		pi.ty = ty
		fv := FreeNames(pi.body)
		for _, n := range fv {
			if contains(pi.names, n) {
				if len(pi.names) > 1 {
					return Verdict{Unknown: true, Detail: "provider name of a multi-name process used directly (refused by the parser)", Where: where}, ck
				}
				continue
			}
			_, isA := assumed[n]
			_, isP := provOf[n]
			switch {
			case !isA && !isP:
				return fail(where, reject(Unbound, "name %s is neither a process nor assumed", n))
			case isA && assumedUsed[n], isP && used[n]:
				return fail(where, reject(TopLevel, "name %s is used by two declarations", n))
			case isA:
				assumedUsed[n] = true
			default:
				used[n] = true
			}
		}
		if len(pi.names) > 1 && !ty.M.C() {
			return fail(where, reject(MultiProvider, "several provider names for type of mode %s", ty.M))
		}
	}
	for n := range assumed {
		if !assumedUsed[n] {
			return fail("assuming", reject(TopLevel, "assumed name %s is never used", n))
		}
	}
	// function bodies
	for _, d := range p.Funs() {
		s := ck.sigs[d.Name]
		c := &ctx{g: map[string]*ast.Ty{}, consumed: map[string]bool{}}
		for i, n := range s.names {
			c.bind(n, s.params[i])
		}
		if d.Explicit != "" && contains(s.names, d.Explicit) {
			return Verdict{Unknown: true, Detail: "explicit provider named like a parameter", Where: "function " + d.Name}, ck
		}
		if e := ck.check(c, prov{alias: d.Explicit, ty: s.ret}, d.Body, "function "+d.Name); e != nil {
			return fail("function "+d.Name, e)
		}
	}
	// process bodies
	for _, pi := range procs {
		where := "prc[" + pi.names[0] + "]"
		c := &ctx{g: map[string]*ast.Ty{}, consumed: map[string]bool{}}
		j := Judgement{Site: "prc", Where: where, Provider: pi.ty.M}
		for _, n := range FreeNames(pi.body) {
			if contains(pi.names, n) {
				continue
			}
			var t *ast.Ty
			if a, ok := assumed[n]; ok {
				t = a
			} else {
				t = provOf[n].ty
			}
			c.bind(n, t)
			j.Deps = append(j.Deps, t.M)
			if ck.CheckTopLevelIndependence && !ast.Geq(t.M, pi.ty.M) {
				return fail(where, &rej{reason: Independence, site: "prc", detail: fmt.Sprintf("%s (mode %s) is weaker than the provider (mode %s)", n, t.M, pi.ty.M)})
			}
		}
		ck.Judgements = append(ck.Judgements, j)
		if e := ck.check(c, prov{ty: pi.ty}, pi.body, where); e != nil {
			return fail(where, e)
		}
	}
	// a configuration is a forest: the uses-relation between top-level processes has no cycle
	// (each would wait for the other for ever); checked last, so that it is reported only for
	// programs that are otherwise well typed
	state := map[*procInfo]int{}
	var cyc func(pi *procInfo) *procInfo
	cyc = func(pi *procInfo) *procInfo {
		state[pi] = 1
		for _, n := range FreeNames(pi.body) {
			q := provOf[n]
			if q == nil || q == pi {
				continue
			}
			if state[q] == 1 {
				return q
			}
			if state[q] == 0 {
				if r := cyc(q); r != nil {
					return r
				}
			}
		}
		state[pi] = 2
		return nil
	}
	for _, pi := range procs {
		if state[pi] == 0 {
			if q := cyc(pi); q != nil {
				return fail("prc["+q.names[0]+"]", reject(TopCycle, "process %s takes part in a cycle of top-level processes that use each other", q.names[0]))
			}
		}
	}
	return Verdict{Accept: true}, ck
}
